"""entry point: python -m symx.run <ID> [--tier quick|thorough] [--replay path]"""
import argparse
import importlib
import os
import sys
import traceback
import warnings

warnings.filterwarnings('ignore')


def main():
    ap = argparse.ArgumentParser()
    ap.add_argument('pid')
    ap.add_argument('--tier', default=os.environ.get('VERIF_TIER', 'quick'))
    ap.add_argument('--replay', default=None)
    ap.add_argument('--only', default=None, help='substring filter on case names (debugging)')
    a = ap.parse_args()
    seed = int(os.environ.get('VERIF_SEED', '0') or 0)
    import torch
    torch.set_num_threads(1)
    torch.manual_seed(seed)
    sys.path.insert(0, os.path.dirname(os.path.dirname(os.path.abspath(__file__))))
    mod = importlib.import_module('harness.%s' % a.pid.lower())
    from symx.harness import Harness, EXIT_HARNESS_ERROR, ReplayDone
    H = Harness(a.pid, a.tier, seed)
    H.only = a.only
    if a.replay:
        # re-examine one recorded finding on the real code: the harness is re-run (no solver queries) until the recorded obligation is
        # reached, then its replay closure is executed on the recorded model.  exit 1 + VIOLATION line if it reproduces, 0 if not.
        import json
        rec = json.load(open(a.replay))
        data = rec.get('data') or {}
        H.replay_target = {'key': rec.get('key'), 'obligation': data.get('obligation'), 'model': data.get('model')}
        try:
            mod.run(H)
        except ReplayDone:
            pass
        except BaseException:
            traceback.print_exc()
        H.kill_pool()
        if H.replay_outcome is None:
            print('REPLAY: the recorded obligation %r was not reached on the current tree (tier %s)' % (data.get('obligation') or rec.get('key'), a.tier))
            sys.stdout.flush()
            os._exit(0)
        ok, detail = H.replay_outcome
        print('REPLAY: %s -> %s' % ('reproduces' if ok else 'does not reproduce', detail[:600]))
        if ok:
            print('VIOLATION property=%s replay=%s' % (a.pid, a.replay))
        sys.stdout.flush()
        os._exit(1 if ok else 0)
    try:
        rc = mod.run(H)
    except SystemExit:
        raise
    except BaseException:
        traceback.print_exc()
        print('HARNESS-ERROR: uncaught exception in harness')
        H.kill_pool()
        sys.stdout.flush()
        os._exit(EXIT_HARNESS_ERROR)
    H.kill_pool()
    sys.stdout.flush()
    os._exit(rc)


if __name__ == '__main__':
    main()
