"""entry point: python -m symx.run <ID> [--tier quick|thorough] [--replay path]"""
import argparse
import importlib
import os
import sys
import traceback
import warnings

warnings.filterwarnings('ignore')


def main():
    ap = argparse.ArgumentParser()
    ap.add_argument('pid')
    ap.add_argument('--tier', default=os.environ.get('VERIF_TIER', 'quick'))
    ap.add_argument('--replay', default=None)
    ap.add_argument('--only', default=None, help='substring filter on case names (debugging)')
    a = ap.parse_args()
    seed = int(os.environ.get('VERIF_SEED', '0') or 0)
    import torch
    torch.set_num_threads(1)
    torch.manual_seed(seed)
    sys.path.insert(0, os.path.dirname(os.path.dirname(os.path.abspath(__file__))))
    mod = importlib.import_module('harness.%s' % a.pid.lower())
    if a.replay:
        sys.exit(mod.replay(a.replay))
    from symx.harness import Harness, EXIT_HARNESS_ERROR
    H = Harness(a.pid, a.tier, seed)
    H.only = a.only
    try:
        rc = mod.run(H)
    except SystemExit:
        raise
    except BaseException:
        traceback.print_exc()
        print('HARNESS-ERROR: uncaught exception in harness')
        H.kill_pool()
        sys.stdout.flush()
        os._exit(EXIT_HARNESS_ERROR)
    H.kill_pool()
    sys.stdout.flush()
    os._exit(rc)


if __name__ == '__main__':
    main()
