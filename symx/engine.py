"""symx engine: symbolic execution of real PyTorch programs at the ATen dispatcher.

Every tensor element in memory may carry a z3 term (shadow memory, keyed by element byte address).
ATen operators are intercepted with TorchDispatchMode; for operators touching symbolic elements the
handler computes the result terms.  Data-dependent control flow is a *decision*: forced, recorded
in the path condition and explored by re-execution (see explore()).
"""
import fractions
import itertools
import math
import sys
import time

import torch
import z3
from torch.utils._python_dispatch import TorchDispatchMode, _disable_current_modes
from torch.utils._pytree import tree_flatten, tree_map

aten = torch.ops.aten
REPO_PREFIX = '/repo/pypose/'


class Unsupported(Exception):
    """operator/situation the engine cannot encode: the obligation is not discharged (never a pass)"""


class BoundExhausted(Exception):
    pass


class Infeasible(Exception):
    """the forced decision prefix is infeasible (pruned)"""


# --------------------------------------------------------------------------- constants

_RAT_CACHE = {}
INF_NOTES = set()
PI = z3.Real('pi')
_PI_FLOATS = {math.pi: PI, -math.pi: -PI, math.pi / 2: PI / 2, -math.pi / 2: -PI / 2, 2 * math.pi: 2 * PI,
              float(torch.tensor(math.pi, dtype=torch.float32)): PI,
              float(torch.tensor(-math.pi, dtype=torch.float32)): -PI,
              float(torch.tensor(math.pi / 2, dtype=torch.float32)): PI / 2}


def rat(v):
    """concrete python/torch scalar -> z3 numeral.  Floats become the simplest rational that rounds to
    the same double ("intended real constant" reading); pi is the symbol pi."""
    if isinstance(v, bool):
        return z3.BoolVal(v)
    if isinstance(v, int):
        return z3.RealVal(v)
    r = _RAT_CACHE.get(v)
    if r is not None:
        return r
    if v != v:
        raise Unsupported("NaN concrete value meets a symbolic operator")
    if v in (float('inf'), float('-inf')):
        # +-inf is modelled as +-2^1024 (the smallest magnitude that rounds to inf); sound for comparisons and for
        # +,- against values assumed finite (harnesses that rely on it assume |inputs| <= 1e300 and say so)
        INF_NOTES.add('concrete +-inf modelled as +-2^1024')
        r = z3.RealVal(2 ** 1024) if v > 0 else z3.RealVal(-(2 ** 1024))
        return r
    if v in _PI_FLOATS:
        return _PI_FLOATS[v]
    f = fractions.Fraction(v)
    for d in (1, 10, 100, 1000, 10 ** 4, 10 ** 5, 10 ** 6, 10 ** 7, 10 ** 9, 10 ** 12):
        g = f.limit_denominator(d)
        if float(g) == v:
            f = g
            break
    r = z3.RealVal(str(f))
    _RAT_CACHE[v] = r
    return r


def rat32(v):
    """like rat but for a float32 payload: simplest rational that rounds to the same float32"""
    if v != v or v in (float('inf'), float('-inf')) or isinstance(v, (bool, int)):
        return rat(v)
    f = fractions.Fraction(v)
    t32 = lambda x: float(torch.tensor(float(x), dtype=torch.float32))
    for d in (1, 10, 100, 1000, 10 ** 4, 10 ** 5, 10 ** 6, 10 ** 7, 10 ** 9):
        g = f.limit_denominator(d)
        if t32(g) == v:
            return z3.RealVal(str(g))
    return z3.RealVal(str(f))


_MP_FUNCS = ('sin', 'cos', 'exp', 'log', 'atan', 'asin', 'acos', 'tanh', 'expm1', 'log1p', 'sqrt', 'cbrt')


def _mp_enclosure(name, num, den):
    """rational enclosure [lo, hi] of f(num/den), width 2e-40 relative/absolute, via mpmath at 60 digits"""
    try:
        import mpmath
    except ImportError:
        return None
    mpmath.mp.dps = 60
    x = mpmath.mpf(num) / mpmath.mpf(den) if den is not None else num
    try:
        f = {'sin': mpmath.sin, 'cos': mpmath.cos, 'exp': mpmath.exp, 'log': mpmath.log, 'atan': mpmath.atan, 'asin': mpmath.asin,
             'acos': mpmath.acos, 'tanh': mpmath.tanh, 'expm1': mpmath.expm1, 'log1p': mpmath.log1p, 'sqrt': mpmath.sqrt,
             'cbrt': mpmath.cbrt}[name]
        y = f(x)
        if not isinstance(y, mpmath.mpf) or not mpmath.isfinite(y):
            return None
    except Exception:
        return None
    eps = (abs(y) + 1) * mpmath.mpf(10) ** -40
    lo, hi = y - eps, y + eps

    def q(z):
        man, exp = mpmath.frexp(z)
        fr = fractions.Fraction(int(mpmath.floor(mpmath.ldexp(man, 200))), 2 ** 200) * fractions.Fraction(2) ** int(exp)
        return fr
    flo, fhi = q(lo), q(hi)
    # floor-based conversion errs downwards by < 2^-200 relative: widen hi by one unit to stay an enclosure
    fhi = fhi + abs(fhi) * fractions.Fraction(1, 2 ** 190) + fractions.Fraction(1, 10 ** 60)
    flo = flo - abs(flo) * fractions.Fraction(1, 2 ** 190) - fractions.Fraction(1, 10 ** 60)
    return z3.RealVal(str(flo)), z3.RealVal(str(fhi))


def is_zero(x):
    return z3.is_rational_value(x) and x.numerator_as_long() == 0


def is_one(x):
    return z3.is_rational_value(x) and x.numerator_as_long() == 1 and x.denominator_as_long() == 1


def to_real(x):
    if z3.is_bool(x):
        if z3.is_true(x):
            return z3.RealVal(1)
        if z3.is_false(x):
            return z3.RealVal(0)
        return z3.If(x, z3.RealVal(1), z3.RealVal(0))
    if z3.is_int(x):
        return z3.ToReal(x)
    return x


def to_bool(x):
    if z3.is_bool(x):
        return x
    return x != 0


def simp(x):
    return z3.simplify(x)


# --------------------------------------------------------------------------- context

class Ctx:
    def __init__(self, forced=(), max_decisions=40, feas_timeout_ms=2000, track_poison=False, name=''):
        self.shadow = {}        # address -> z3 term
        self.poison = {}        # address -> z3 Bool : element may be NaN/Inf
        self.keep = []          # every tensor seen stays alive: no address reuse within a path
        self.pc = []            # path condition
        self.assume = []        # harness assumptions (preconditions) - used for feasibility pruning
        self.axioms = []        # definitional constraints of abstraction variables
        self.tf = {}            # (fname, arg sexpr) -> (var, arg)
        self.tfvar = {}         # var id -> (fname, arg, var)
        self.tfc = {}           # canonical-form key -> var
        self.fresh_n = 0
        self.ops = {}
        self.funcs = set()      # qualified names of pypose functions executed under the engine
        self.forced = list(forced)
        self.trace = []         # [(predicate, taken, alt_feasible)]
        self.decided = {}       # predicate id -> bool (syntactic reuse of earlier decisions)
        self.max_decisions = max_decisions
        self.feas_timeout_ms = feas_timeout_ms
        self.track_poison = track_poison
        # sqrt_guarded (harness option, default off): constrain v = sqrt(a) only where a >= 0.  With the default unconditional definition
        # (v >= 0, v*v == a) a negative argument is an unsatisfiable path, so NaN tracking does NOT see sqrt of a negative number; turning
        # the guard on everywhere was tried and costs most of the staged proofs (C02: 335 of 640 discharged instead of 429 of 484).
        self.sqrt_guarded = False
        self.stubs = set()
        self.concretizations = []
        self.name = name
        self.havoc_unknown = False
        self.f32 = False
        self.solver_time = 0.0
        self.feas_queries = 0
        self.round_u = None     # unit round-off: when set, arithmetic pointwise ops carry (1+delta) factors
        self.deltas = []
        self.relations = []     # (guard Bool, polynomial term == 0) facts contributed by contract stubs
        self.env = {}           # symbolic input name -> concrete payload value (self-test point)
        self.deviated = False   # some decision differs from what the concrete payload would have done

    def fresh(self, name, sort='real'):
        self.fresh_n += 1
        n = "%s!%d" % (name, self.fresh_n)
        return z3.Real(n) if sort == 'real' else (z3.Bool(n) if sort == 'bool' else z3.Int(n))

    # ---- abstraction of transcendental / algebraic functions
    def tfun(self, name, a):
        a = simp(a)
        if z3.is_rational_value(a):
            num, den = a.numerator_as_long(), a.denominator_as_long()
            if name == 'sqrt' and num >= 0:
                rn, rd = math.isqrt(num), math.isqrt(den)
                if rn * rn == num and rd * rd == den:
                    return z3.RealVal(rn) / z3.RealVal(rd) if rd != 1 else z3.RealVal(rn)
            if num == 0 and name in ('sin', 'atan', 'asin', 'tan', 'expm1', 'log1p', 'tanh'):
                return z3.RealVal(0)
            if num == 0 and name in ('cos', 'exp'):
                return z3.RealVal(1)
            if num == den and name == 'log':
                return z3.RealVal(0)
        key = (name, a.sexpr())
        if key in self.tf:
            return self.tf[key][0]
        # canonical polynomial form of small arguments, so that algebraically equal arguments share one abstraction variable
        ckey = None
        if len(key[1]) < 1500:
            try:
                ckey = (name, 'canon:' + z3.simplify(a, som=True, sort_sums=True).sexpr())
                if ckey in self.tfc:
                    v = self.tfc[ckey]
                    self.tf[key] = (v, a)
                    return v
            except z3.Z3Exception:
                ckey = None
        v = self.fresh(name)
        self.tf[key] = (v, a)
        if ckey is not None:
            self.tfc[ckey] = v
        self.tfvar[v.get_id()] = (name, a, v)
        if name in _MP_FUNCS and not z3.is_rational_value(a):
            cv = self.const_value(a)
            if cv is not None:
                enc = _mp_enclosure(name, cv, None)
                if enc is not None:
                    self.axioms += [v >= enc[0], v <= enc[1]]
                    self.stubs.add('constant expressions under transcendental functions evaluated with mpmath (60 digits), enclosure 1e-40')
        if z3.is_rational_value(a) and name in _MP_FUNCS:
            enc = _mp_enclosure(name, a.numerator_as_long(), a.denominator_as_long())
            if enc is not None:
                self.axioms += [v >= enc[0], v <= enc[1]]
                self.stubs.add('constants f(c) of transcendental functions enclosed to 1e-40 with mpmath (60 digits)')
        if name == 'sqrt':
            if getattr(self, 'sqrt_guarded', False):
                # (harness option) do not assume the argument non-negative: where it is negative the variable is unconstrained and
                # the poison tracker flags the value
                self.axioms += [z3.Implies(a >= 0, z3.And(v >= 0, v * v == a))]
            else:
                self.axioms += [v >= 0, v * v == a]
        elif name == 'cbrt':
            self.axioms += [v * v * v == a]
        return v

    def const_value(self, e, _memo=None):
        """mpmath value of a term without free input variables (rationals, pi, abstraction variables of constants), else None"""
        try:
            import mpmath
        except ImportError:
            return None
        if _memo is None:
            # cheap DAG walk first: any free input variable => not a constant expression
            seen, stack = set(), [e]
            while stack:
                t = stack.pop()
                k = t.get_id()
                if k in seen:
                    continue
                seen.add(k)
                if z3.is_const(t) and t.decl().kind() == z3.Z3_OP_UNINTERPRETED:
                    ent = self.tfvar.get(k)
                    if ent is None:
                        if t.decl().name() != 'pi':
                            return None
                    elif isinstance(ent[1], tuple):
                        return None
                    else:
                        stack.append(ent[1])
                else:
                    stack.extend(t.children())
                if len(seen) > 4000:
                    return None
            _memo = {}
        kk = e.get_id()
        if kk in _memo:
            return _memo[kk]
        r_ = self._const_value(e, _memo)
        _memo[kk] = r_
        return r_

    def _const_value(self, e, _memo):
        import mpmath
        mpmath.mp.dps = 60
        if z3.is_rational_value(e):
            return mpmath.mpf(e.numerator_as_long()) / mpmath.mpf(e.denominator_as_long())
        if z3.is_const(e):
            if e.decl().name() == 'pi':
                return mpmath.pi
            ent = self.tfvar.get(e.get_id())
            if ent is None or isinstance(ent[1], tuple):
                return None
            av = self.const_value(ent[1], _memo)
            if av is None:
                return None
            try:
                f = {'sin': mpmath.sin, 'cos': mpmath.cos, 'exp': mpmath.exp, 'log': mpmath.log, 'atan': mpmath.atan,
                     'asin': mpmath.asin, 'acos': mpmath.acos, 'tanh': mpmath.tanh, 'expm1': mpmath.expm1, 'log1p': mpmath.log1p,
                     'sqrt': mpmath.sqrt, 'cbrt': mpmath.cbrt}[ent[0]]
                r = f(av)
                return r if isinstance(r, mpmath.mpf) else None
            except Exception:
                return None
        ch = [self.const_value(c, _memo) for c in e.children()]
        if any(c is None for c in ch):
            return None
        d = e.decl().kind()
        try:
            if d == z3.Z3_OP_ADD:
                return sum(ch[1:], ch[0])
            if d == z3.Z3_OP_SUB:
                return ch[0] - sum(ch[2:], ch[1]) if len(ch) > 1 else -ch[0]
            if d == z3.Z3_OP_UMINUS:
                return -ch[0]
            if d == z3.Z3_OP_MUL:
                r = ch[0]
                for c in ch[1:]:
                    r = r * c
                return r
            if d == z3.Z3_OP_DIV:
                return ch[0] / ch[1] if ch[1] != 0 else None
        except Exception:
            return None
        return None

    # ---- decisions
    def feasible(self, extra):
        s = z3.Solver()
        s.set('timeout', self.feas_timeout_ms)
        s.add(self.assume)
        s.add(self.axioms)
        s.add(self.pc)
        s.add(extra)
        t0 = time.time()
        r = s.check()
        self.solver_time += time.time() - t0
        self.feas_queries += 1
        return str(r)        # 'sat' | 'unsat' | 'unknown'

    def feasible_light(self, extra):
        """cheap pre-check on the linear abstraction (non-linear subterms opaque): 'unsat' is sound"""
        from .terms import linear_abstract
        if not hasattr(self, '_lin_table'):
            self._lin_table, self._lin_cache, self._lin_pc, self._lin_n = {}, {}, [], 0
        while self._lin_n < len(self.pc):
            self._lin_pc.append(linear_abstract(self.pc[self._lin_n], self._lin_table, self._lin_cache))
            self._lin_n += 1
        if not hasattr(self, '_lin_assume') or self._lin_assume_n != len(self.assume):
            self._lin_assume = [linear_abstract(a, self._lin_table, self._lin_cache) for a in self.assume]
            self._lin_assume_n = len(self.assume)
        s = z3.Solver()
        s.set('timeout', 300)
        s.add(self._lin_assume)
        s.add(self._lin_pc)
        s.add([linear_abstract(x, self._lin_table, self._lin_cache) for x in extra])
        t0 = time.time()
        r = str(s.check())
        self.solver_time += time.time() - t0
        return r

    def decide(self, pred, concrete_default):
        """Decide a symbolic Bool.  Returns the python bool taken on this path."""
        pred = simp(pred)
        if z3.is_true(pred):
            return True
        if z3.is_false(pred):
            return False
        k = pred.get_id()
        if k in self.decided:
            return self.decided[k][0]
        npred = simp(z3.Not(pred))
        if npred.get_id() in self.decided:
            return not self.decided[npred.get_id()][0]
        i = len(self.trace)
        if i >= self.max_decisions:
            raise BoundExhausted("more than %d decisions on one path" % self.max_decisions)
        if i < len(self.forced):
            taken = self.forced[i]
            alt = None   # already accounted for by the explorer
        else:
            ft = self.feasible_light([pred])
            ff = self.feasible_light([npred]) if ft != 'unsat' else 'sat'
            if ft != 'unsat' and ff != 'unsat':
                ft = self.feasible([pred])
                ff = self.feasible([npred])
            if ft == 'unsat' and ff == 'unsat':
                raise Infeasible("path condition itself infeasible")
            if ft == 'unsat':
                taken, alt = False, False
            elif ff == 'unsat':
                taken, alt = True, False
            else:
                taken = bool(concrete_default) if concrete_default is not None else True
                alt = True
        if concrete_default is None or bool(concrete_default) != taken:
            self.deviated = True
        self.trace.append((pred, taken, alt))
        self.pc.append(pred if taken else npred)
        # (the terms are stored with the verdict: z3 AST ids are only unique among LIVE terms)
        self.decided[k] = (taken, pred)
        self.decided[npred.get_id()] = (not taken, npred)
        return taken


# --------------------------------------------------------------------------- addresses

def addr_tensor(t):
    """int64 tensor, same shape as t, of element byte addresses."""
    base = t.data_ptr() if t.numel() else 0
    isz = t.element_size()
    a = torch.zeros(t.shape, dtype=torch.int64)
    for d, (n, s) in enumerate(zip(t.shape, t.stride())):
        if n > 1:
            shp = [1] * t.dim()
            shp[d] = n
            a = a + (torch.arange(n, dtype=torch.int64) * (s * isz)).view(shp)
    return a + base


def _addrs(t):
    with _disable_current_modes(), torch._C.DisableTorchFunctionSubclass():
        if t.numel() == 0:
            return []
        return addr_tensor(t).reshape(-1).tolist()


VIEW_OPS = {
    'aten.view.default', 'aten.expand.default', 'aten.slice.Tensor', 'aten.select.int', 'aten.squeeze.dim',
    'aten.squeeze.default', 'aten.unsqueeze.default', 'aten.transpose.int', 'aten.alias.default',
    'aten.detach.default', 'aten._unsafe_view.default', 'aten.diagonal.default',
    'aten.split_with_sizes.default', 'aten.permute.default', 'aten.t.default', 'aten.as_strided.default',
    'aten.unbind.int', 'aten.split.Tensor', 'aten.squeeze.dims', 'aten.lift_fresh.default',
    'aten._reshape_alias.default', 'aten.unfold.default', 'aten.narrow.default', 'aten.view_as_real.default',
    'aten.detach_.default', 'aten.unsafe_split.Tensor', 'aten.movedim.int', 'aten.swapaxes.default',
    'aten.mT.default', 'aten.mH.default', 'aten.chunk.default', 'aten.real.default', 'aten.numpy_T.default',
    'aten.view.dtype', 'aten.unsafe_chunk.default', 'aten.unsafe_split_with_sizes.default',
    'aten._conj.default', 'aten.resolve_conj.default', 'aten.resolve_neg.default', 'aten.lift.default',
    'aten.squeeze_.dim', 'aten.squeeze_.default', 'aten.squeeze_.dims', 'aten.unsqueeze_.default', 'aten.transpose_.default', 'aten.t_.default',
    'aten.set_.source_Tensor', 'aten.values.default', 'aten.crow_indices.default', 'aten.col_indices.default',
    'aten.ccol_indices.default', 'aten.row_indices.default', 'aten._values.default', 'aten._indices.default', 'aten.indices.default', 'aten.set_.source_Storage_storage_offset', 'aten.set_.source_Storage',
}
# operators whose result does not depend on the *values* of their tensor arguments
VALUE_FREE = {
    'aten.zeros_like.default', 'aten.ones_like.default', 'aten.empty_like.default', 'aten.new_zeros.default',
    'aten.new_empty.default', 'aten.new_ones.default', 'aten.new_full.default', 'aten.full_like.default',
    'aten.new_empty_strided.default', 'aten.empty_strided.default', 'aten.fill_.Scalar', 'aten.zero_.default',
    'aten.sym_size.int', 'aten.sym_stride.int', 'aten.sym_numel.default', 'aten.is_same_size.default',
    'aten.rand_like.default', 'aten.randn_like.default', 'aten._has_compatible_shallow_copy_type.default',
    'aten.is_pinned.default', 'aten.stride.int', 'aten.size.int', 'aten.dim.default', 'aten.numel.default',
}
HANDLERS = {}


def handler(*names):
    def deco(f):
        for n in names:
            HANDLERS[n] = f
        return f
    return deco


class SymMode(TorchDispatchMode):
    def __init__(self, ctx):
        super().__init__()
        self.ctx = ctx

    # ---- shadow access
    def terms(self, t):
        """flat list (logical order) of terms, None where concrete"""
        sh = self.ctx.shadow
        if not sh or t.numel() == 0:
            return [None] * t.numel()
        return [sh.get(a) for a in _addrs(t)]

    def is_sym(self, t):
        sh = self.ctx.shadow
        if t.layout != torch.strided:
            with _disable_current_modes():
                try:
                    parts = [t._values()] if t.layout == torch.sparse_coo else [t.values()]
                except Exception:
                    return False
            return any(self.is_sym(p) for p in parts)
        if not sh or t.numel() == 0:
            return False
        for a in _addrs(t):
            if a in sh:
                return True
        return False

    def concrete_vals(self, t):
        with _disable_current_modes(), torch._C.DisableTorchFunctionSubclass():
            return t.detach().reshape(-1).tolist()

    def sparse_terms(self, t):
        """dense-equivalent flat term list of a 2-D sparse tensor (COO/CSR/CSC/BSR/BSC) by the layout's definition"""
        if t.dim() != 2:
            raise Unsupported('sparse tensor with batch dims')
        R, C = t.shape
        dense = [z3.RealVal(0)] * (R * C)
        with _disable_current_modes():
            lay = t.layout
            if lay == torch.sparse_coo:
                idx, vals = t._indices(), t._values()
                vt = [to_real(x) for x in self.full_terms(vals)]
                for k, (i, j) in enumerate(idx.t().tolist()):
                    dense[i * C + j] = dense[i * C + j] + vt[k]
                return [simp(d) for d in dense]
            vals = t.values()
            vt = [to_real(x) for x in self.full_terms(vals)]
            if lay in (torch.sparse_csr, torch.sparse_bsr):
                comp, plain = t.crow_indices().tolist(), t.col_indices().tolist()
            else:
                comp, plain = t.ccol_indices().tolist(), t.row_indices().tolist()
            bh, bw = (vals.shape[-2], vals.shape[-1]) if vals.dim() == 3 else (1, 1)
            for c in range(len(comp) - 1):
                for k in range(comp[c], comp[c + 1]):
                    p = plain[k]
                    bi, bj = (c, p) if lay in (torch.sparse_csr, torch.sparse_bsr) else (p, c)
                    for u in range(bh):
                        for v in range(bw):
                            i, j = bi * bh + u, bj * bw + v
                            dense[i * C + j] = dense[i * C + j] + vt[(k * bh + u) * bw + v]
        return [simp(d) for d in dense]

    def full_terms(self, t):
        if t.layout != torch.strided:
            return self.sparse_terms(t)
        ts = self.terms(t)
        if all(x is not None for x in ts):
            return ts
        vals = self.concrete_vals(t)
        cv = rat32 if (t.dtype == torch.float32) else rat
        return [x if x is not None else cv(v) for x, v in zip(ts, vals)]

    def poisons(self, t):
        po = self.ctx.poison
        if t.layout != torch.strided or not po or t.numel() == 0:
            return [None] * t.numel()
        return [po.get(a) for a in _addrs(t)]

    def write_sparse(self, t, dense):
        """store a dense-equivalent term list into a sparse tensor's values (entries outside the pattern must be 0)"""
        R, C = t.shape
        with _disable_current_modes():
            lay = t.layout
            if lay == torch.sparse_coo:
                vals, pos = t._values(), [(i, j) for i, j in t._indices().t().tolist()]
            else:
                vals = t.values()
                if vals.dim() != 1:
                    raise Unsupported('write into block-sparse output')
                if lay == torch.sparse_csr:
                    comp, plain = t.crow_indices().tolist(), t.col_indices().tolist()
                    pos = [(c, plain[k]) for c in range(len(comp) - 1) for k in range(comp[c], comp[c + 1])]
                else:
                    comp, plain = t.ccol_indices().tolist(), t.row_indices().tolist()
                    pos = [(plain[k], c) for c in range(len(comp) - 1) for k in range(comp[c], comp[c + 1])]
        stored = set(pos)
        for i in range(R):
            for j in range(C):
                if (i, j) not in stored and not is_zero(simp(dense[i * C + j])):
                    raise Unsupported('sparse output pattern misses a structurally non-zero entry')
        self.write(vals, [dense[i * C + j] for (i, j) in pos])

    def write(self, t, terms, poison=None):
        if t.layout != torch.strided:
            return self.write_sparse(t, terms)
        ad = _addrs(t)
        sh = self.ctx.shadow
        assert len(ad) == len(terms), (len(ad), len(terms))
        for a, x in zip(ad, terms):
            if x is None or z3.is_rational_value(x) and False:
                sh.pop(a, None)
            else:
                sh[a] = x
        po = self.ctx.poison
        if poison is None:
            if po:
                for a in ad:
                    po.pop(a, None)
        else:
            for a, p in zip(ad, poison):
                if p is None or z3.is_false(p):
                    po.pop(a, None)
                else:
                    po[a] = p
        self.ctx.keep.append(t)

    def clear(self, t):
        self.ctx.keep.append(t)
        if t.layout != torch.strided:
            return
        if (not self.ctx.shadow and not self.ctx.poison) or t.numel() == 0:
            return
        sh, po = self.ctx.shadow, self.ctx.poison
        for a in _addrs(t):
            sh.pop(a, None)
            po.pop(a, None)

    def symbolic(self, t, names, sort='real'):
        """declare the elements of t as symbolic variables (harness API)"""
        if isinstance(names, str):
            names = ['%s%d' % (names, i) for i in range(t.numel())]
        mk = {'real': z3.Real, 'bool': z3.Bool, 'int': z3.Int}[sort]
        vs = [mk(n) for n in names]
        for n, v in zip(names, self.concrete_vals(t)):
            self.ctx.env[n] = v
        self.write(t, vs)
        return vs

    def bools(self, t):
        """python bools of a (possibly symbolic) bool tensor, consistent with the path condition (decides what is undecided)"""
        ts = self.terms(t)
        vals = self.concrete_vals(t)
        return [bool(v) if x is None else self.ctx.decide(to_bool(x), bool(v)) for x, v in zip(ts, vals)]

    def set_terms(self, t, terms):
        self.write(t, list(terms))

    def _note_frames(self):
        f = sys._getframe(2)
        funcs = self.ctx.funcs
        n = 0
        while f is not None and n < 60:
            co = f.f_code
            if co.co_filename.startswith(REPO_PREFIX):
                funcs.add(co.co_filename[len('/repo/'):] + ':' + co.co_qualname)
            f = f.f_back
            n += 1

    def __torch_dispatch__(self, func, types, args=(), kwargs=None):
        kwargs = kwargs or {}
        name = str(func)
        ctx = self.ctx
        ctx.ops[name] = ctx.ops.get(name, 0) + 1
        flat, _ = tree_flatten((args, kwargs))
        tens = [a for a in flat if isinstance(a, torch.Tensor)]
        for t in tens:
            ctx.keep.append(t)
        if name in VIEW_OPS:
            return func(*args, **kwargs)
        anysym = any(self.is_sym(t) for t in tens)
        if anysym:
            self._note_frames()
        if anysym and name not in VALUE_FREE:
            h = HANDLERS.get(name)
            if h is None:
                if ctx.havoc_unknown:
                    out = func(*args, **kwargs)
                    oflat, _ = tree_flatten(out)
                    for o in oflat:
                        if isinstance(o, torch.Tensor) and o.dtype.is_floating_point:
                            self.write(o, [ctx.fresh('havoc') for _ in range(o.numel())])
                    return out
                raise Unsupported(name)
            return h(self, func, args, kwargs)
        out = func(*args, **kwargs)
        oflat, _ = tree_flatten(out)
        for o in oflat:
            if isinstance(o, torch.Tensor):
                self.clear(o)
        if getattr(ctx, 'havoc_rand', False) and name in ('aten.rand.default', 'aten.rand.generator') and isinstance(out, torch.Tensor) and out.numel():
            # (harness option) randomness as a nondeterministic stub: uniform draws are ARBITRARY values of their documented range [0, 1)
            vs = [ctx.fresh('rand') for _ in range(out.numel())]
            ctx.assume += [z3.And(v >= 0, v < 1) for v in vs]
            for v, c_ in zip(vs, self.concrete_vals(out)):
                ctx.env[str(v)] = float(c_)
            self.write(out, vs)
            ctx.stubs.add('torch.rand: arbitrary values in [0, 1) (nondeterministic stub)')
            return out
        if name.split('.')[1].endswith('_') and tens:
            self.clear(tens[0])
        return out


# --------------------------------------------------------------------------- pointwise

def _bcast(m, xs, shape, getter):
    """xs: tensors or python scalars; per-operand flat lists broadcast to `shape`"""
    res = []
    n = math.prod(shape)
    for x in xs:
        if isinstance(x, torch.Tensor):
            ft = getter(x)
            if tuple(x.shape) == tuple(shape):
                res.append(ft)
            else:
                with _disable_current_modes():
                    idx = torch.arange(x.numel()).view(x.shape).expand(shape).reshape(-1).tolist()
                res.append([ft[i] for i in idx])
        else:
            res.append([x] * n)
    return res


def _scalar_term(x):
    return x if isinstance(x, z3.ExprRef) else rat(x)


def _por(ps):
    ps = [p for p in ps if p is not None and not z3.is_false(p)]
    if not ps:
        return None
    return ps[0] if len(ps) == 1 else simp(z3.Or(ps))


ROUNDED_OPS = {'aten.%s.%s' % (a, b) for a in ('add', 'sub', 'mul', 'div', 'add_', 'sub_', 'mul_', 'div_') for b in ('Tensor', 'Scalar')} | {
    'aten.%s.default' % a for a in ('reciprocal', 'sqrt', 'rsqrt', 'sin', 'cos', 'tan', 'exp', 'expm1', 'log', 'log1p', 'atan', 'asin', 'acos',
                                     'tanh', 'atan2', 'square')} | {'aten.rsub.Scalar', 'aten.rsub.Tensor', 'aten.pow.Tensor_Scalar', 'aten.pow.Tensor_Tensor'}


def pointwise(fn, pfn=None, sel=False):
    """fn(ctx, *terms) -> term.  pfn(ctx, *terms) -> extra poison Bool or None.
    sel=True: fn is a selection (where): poison handled by fn-specific code"""
    def h(m, func, args, kwargs):
        name = str(func)
        inplace = name.split('.')[1].endswith('_')
        alpha = kwargs.get('alpha', None)
        kw = {k: v for k, v in kwargs.items()}
        ins = list(args)
        if inplace:
            # operands must be read BEFORE the real kernel overwrites the target's payload
            target = args[0]
            cols = _bcast(m, ins, target.shape, m.full_terms)
            pcols0 = _bcast(m, [a if isinstance(a, torch.Tensor) else None for a in ins], target.shape, m.poisons) \
                if m.ctx.track_poison and target.numel() else None
            out = func(*args, **kw)
        else:
            out = func(*args, **kw)
            target = out
            cols = _bcast(m, ins, target.shape, m.full_terms)
            pcols0 = None
        cols = [[_scalar_term(x) for x in c] if not isinstance(a, torch.Tensor) else c for a, c in zip(ins, cols)]
        extra = {}
        if alpha is not None:
            extra['alpha'] = rat(alpha)
        for k in ('min', 'max', 'nan', 'posinf', 'neginf', 'rounding_mode'):
            if k in kwargs:
                extra[k] = kwargs[k]
        ctx = m.ctx
        res = [simp(fn(ctx, *c, **extra)) for c in zip(*cols)] if target.numel() else []
        if ctx.round_u is not None and target.dtype.is_floating_point and name in ROUNDED_OPS and target.numel():
            # standard model of floating-point arithmetic: fl(x op y) = (x op y)(1 + delta), |delta| <= u  (one fresh delta per
            # element and operator; exact operations and data movement carry none)
            rr = []
            for r_ in res:
                if z3.is_rational_value(r_) or z3.is_bool(r_):
                    rr.append(r_)
                    continue
                dlt = ctx.fresh('delta')
                ctx.deltas.append(dlt)
                rr.append(r_ * (1 + dlt))
            res = rr
        pres = None
        if ctx.track_poison and target.numel():
            pcols = pcols0 if pcols0 is not None else _bcast(m, [a if isinstance(a, torch.Tensor) else None for a in ins], target.shape, m.poisons)
            pres = []
            for k, c in enumerate(zip(*cols)):
                ps = [pc[k] for pc in pcols]
                if sel:
                    pres.append(pfn(ctx, c, ps))
                else:
                    p = _por(ps)
                    if pfn is not None:
                        e = pfn(ctx, *c)
                        if e is not None:
                            p = _por([p, simp(e)])
                    pres.append(p)
        m.write(target, res, pres)
        return out
    return h


def _add(c, a, b, alpha=None):
    a, b = to_real(a), to_real(b)
    return a + (b if alpha is None else alpha * b)


def _sub(c, a, b, alpha=None):
    a, b = to_real(a), to_real(b)
    return a - (b if alpha is None else alpha * b)


def _mul(c, a, b):
    if z3.is_bool(a) and z3.is_bool(b):
        return z3.And(a, b)
    if z3.is_bool(a) or z3.is_bool(b):
        k, v = (a, b) if z3.is_bool(a) else (b, a)
        if getattr(c, 'split_bool_casts', False) and not (z3.is_true(k) or z3.is_false(k)):
            # case split instead of an If-term: one path per regime of a mask-weighted sum
            return to_real(v) if c.decide(k, None) else z3.RealVal(0)
        return z3.If(k, to_real(v), z3.RealVal(0))
    return to_real(a) * to_real(b)


def _div(c, a, b, rounding_mode=None):
    if rounding_mode is not None:
        raise Unsupported('div rounding_mode')
    return to_real(a) / to_real(b)


def _where_term(c, k, a, b):
    k = simp(to_bool(k))
    if getattr(c, 'split_where', False) and not (z3.is_true(k) or z3.is_false(k)):
        # case split instead of an If-term (harness option): one path per outcome of the selection
        return to_real(a) if c.decide(k, None) else to_real(b)
    return z3.If(k, to_real(a), to_real(b))


def _pdiv(c, a, b, **k):
    b = to_real(b)
    if z3.is_rational_value(b) and not is_zero(b):
        return None
    return b == 0


def _pow(c, a, e):
    a = to_real(a)
    if z3.is_rational_value(e) and e.denominator_as_long() == 1:
        n = e.numerator_as_long()
        if 0 <= n <= 12:
            r = z3.RealVal(1)
            for _ in range(n):
                r = r * a
            return r
        if -12 <= n < 0:
            return 1 / _pow(c, a, z3.RealVal(-n))
    if z3.is_rational_value(e) and e.denominator_as_long() == 2:
        n = e.numerator_as_long()
        s = c.tfun('sqrt', a)
        if n == 1:
            return s
        if n == -1:
            return 1 / s
        if n == 3:
            return s * a
    if z3.is_rational_value(e) and e.numerator_as_long() == 1 and e.denominator_as_long() == 3:
        return c.tfun('cbrt', a)
    raise Unsupported('pow with exponent %s' % e)


def _ppow(c, a, e):
    if z3.is_rational_value(e):
        if e.denominator_as_long() == 2:
            return to_real(a) < 0 if e.numerator_as_long() > 0 else to_real(a) <= 0
        if e.denominator_as_long() == 1 and e.numerator_as_long() < 0:
            return to_real(a) == 0
    return None


def _tfh(name):
    return lambda c, a: c.tfun(name, to_real(a))


def _clamp(c, a, lo=None, hi=None, min=None, max=None):
    lo = lo if lo is not None else min
    hi = hi if hi is not None else max
    a = to_real(a)
    if lo is not None:
        lo = _scalar_term(lo)
        a = z3.If(a < lo, lo, a)
    if hi is not None:
        hi = _scalar_term(hi)
        a = z3.If(a > hi, hi, a)
    return a


def _where_poison(ctx, c, ps):
    k, a, b = c
    pk, pa, pb = ps
    pa = pa if pa is not None else z3.BoolVal(False)
    pb = pb if pb is not None else z3.BoolVal(False)
    r = simp(z3.If(to_bool(k), pa, pb))
    return _por([pk, r])


def _nan_to_num(c, a, nan=None, posinf=None, neginf=None):
    return a


def _nan_to_num_poison(ctx, c, ps):
    return None


def _reg(names, h):
    for n in names:
        HANDLERS[n] = h


_reg(['aten.add.Tensor', 'aten.add_.Tensor', 'aten.add.Scalar', 'aten.add_.Scalar'], pointwise(_add))
_reg(['aten.sub.Tensor', 'aten.sub_.Tensor', 'aten.sub.Scalar', 'aten.sub_.Scalar'], pointwise(_sub))
_reg(['aten.mul.Tensor', 'aten.mul_.Tensor', 'aten.mul.Scalar', 'aten.mul_.Scalar'], pointwise(_mul))
_reg(['aten.div.Tensor', 'aten.div_.Tensor', 'aten.div.Scalar', 'aten.div_.Scalar', 'aten.div.Tensor_mode'],
     pointwise(_div, _pdiv))
_reg(['aten.neg.default', 'aten.neg_.default'], pointwise(lambda c, a: -to_real(a)))
_reg(['aten.reciprocal.default', 'aten.reciprocal_.default'],
     pointwise(lambda c, a: 1 / to_real(a), lambda c, a: to_real(a) == 0))
_reg(['aten.rsub.Scalar', 'aten.rsub.Tensor'], pointwise(lambda c, a, b, alpha=None: to_real(b) - to_real(a)))
_reg(['aten.gt.Scalar', 'aten.gt.Tensor'], pointwise(lambda c, a, b: to_real(a) > to_real(b)))
_reg(['aten.lt.Scalar', 'aten.lt.Tensor'], pointwise(lambda c, a, b: to_real(a) < to_real(b)))
_reg(['aten.ge.Scalar', 'aten.ge.Tensor'], pointwise(lambda c, a, b: to_real(a) >= to_real(b)))
_reg(['aten.le.Scalar', 'aten.le.Tensor'], pointwise(lambda c, a, b: to_real(a) <= to_real(b)))
_reg(['aten.eq.Scalar', 'aten.eq.Tensor'], pointwise(lambda c, a, b: to_real(a) == to_real(b)))
_reg(['aten.ne.Scalar', 'aten.ne.Tensor'], pointwise(lambda c, a, b: to_real(a) != to_real(b)))
_reg(['aten.bitwise_and.Tensor', 'aten.logical_and.default', 'aten.bitwise_and_.Tensor', 'aten.logical_and_.default'],
     pointwise(lambda c, a, b: z3.And(to_bool(a), to_bool(b))))
_reg(['aten.bitwise_or.Tensor', 'aten.logical_or.default', 'aten.bitwise_or_.Tensor', 'aten.logical_or_.default'],
     pointwise(lambda c, a, b: z3.Or(to_bool(a), to_bool(b))))
_reg(['aten.bitwise_xor.Tensor', 'aten.logical_xor.default'],
     pointwise(lambda c, a, b: z3.Xor(to_bool(a), to_bool(b))))
_reg(['aten.bitwise_not.default', 'aten.logical_not.default', 'aten.bitwise_not_.default'],
     pointwise(lambda c, a: z3.Not(to_bool(a))))
_reg(['aten.abs.default', 'aten.abs_.default'], pointwise(lambda c, a: z3.If(to_real(a) >= 0, to_real(a), -to_real(a))))
_reg(['aten.sign.default', 'aten.sgn.default'],
     pointwise(lambda c, a: z3.If(to_real(a) > 0, z3.RealVal(1), z3.If(to_real(a) < 0, z3.RealVal(-1), z3.RealVal(0)))))
_reg(['aten.where.self', 'aten.where.ScalarOther', 'aten.where.ScalarSelf', 'aten.where.Scalar'],
     pointwise(lambda c, k, a, b: _where_term(c, k, a, b), _where_poison, sel=True))
_reg(['aten.masked_fill.Scalar', 'aten.masked_fill_.Scalar', 'aten.masked_fill.Tensor', 'aten.masked_fill_.Tensor'],
     pointwise(lambda c, a, k, v: z3.If(to_bool(k), to_real(v), to_real(a)),
               lambda ctx, c, ps: _where_poison(ctx, (c[1], c[2], c[0]), (ps[1], ps[2], ps[0])), sel=True))
_reg(['aten.nan_to_num.default', 'aten.nan_to_num_.default'], pointwise(_nan_to_num, _nan_to_num_poison, sel=True))
_reg(['aten.pow.Tensor_Scalar', 'aten.pow_.Scalar', 'aten.pow.Tensor_Tensor'], pointwise(_pow, _ppow))
_reg(['aten.square.default'], pointwise(lambda c, a: to_real(a) * to_real(a)))
_reg(['aten.sqrt.default', 'aten.sqrt_.default'], pointwise(_tfh('sqrt'), lambda c, a: to_real(a) < 0))
_reg(['aten.rsqrt.default'], pointwise(lambda c, a: 1 / c.tfun('sqrt', to_real(a)), lambda c, a: to_real(a) <= 0))
for _n in ('sin', 'cos', 'exp', 'atan', 'tanh', 'expm1'):
    _reg(['aten.%s.default' % _n, 'aten.%s_.default' % _n], pointwise(_tfh(_n)))
_reg(['aten.tan.default'], pointwise(lambda c, a: c.tfun('sin', to_real(a)) / c.tfun('cos', to_real(a)),
                                     lambda c, a: c.tfun('cos', to_real(a)) == 0))
_reg(['aten.log.default', 'aten.log_.default'], pointwise(_tfh('log'), lambda c, a: to_real(a) <= 0))
_reg(['aten.log1p.default'], pointwise(_tfh('log1p'), lambda c, a: to_real(a) <= -1))
_reg(['aten.asin.default'], pointwise(_tfh('asin'), lambda c, a: z3.Or(to_real(a) < -1, to_real(a) > 1)))
_reg(['aten.acos.default'], pointwise(_tfh('acos'), lambda c, a: z3.Or(to_real(a) < -1, to_real(a) > 1)))
_reg(['aten.clamp.default', 'aten.clamp_.default', 'aten.clamp.Tensor', 'aten.clamp_.Tensor'], pointwise(_clamp))
_reg(['aten.clamp_min.default', 'aten.clamp_min_.default', 'aten.clamp_min.Tensor'],
     pointwise(lambda c, a, lo: _clamp(c, a, lo, None)))
_reg(['aten.clamp_max.default', 'aten.clamp_max_.default', 'aten.clamp_max.Tensor'],
     pointwise(lambda c, a, hi: _clamp(c, a, None, hi)))
_reg(['aten.maximum.default'], pointwise(lambda c, a, b: z3.If(to_real(a) >= to_real(b), to_real(a), to_real(b))))
_reg(['aten.minimum.default'], pointwise(lambda c, a, b: z3.If(to_real(a) <= to_real(b), to_real(a), to_real(b))))
_reg(['aten.isnan.default', 'aten.isinf.default'], pointwise(lambda c, a: z3.BoolVal(False),
                                                              lambda ctx, c, ps: None, sel=True))
_reg(['aten.isfinite.default'], pointwise(lambda c, a: z3.BoolVal(True), lambda ctx, c, ps: None, sel=True))
_reg(['aten.relu.default'], pointwise(lambda c, a: z3.If(to_real(a) > 0, to_real(a), z3.RealVal(0))))
_reg(['aten.addcmul.default', 'aten.addcmul_.default'],
     pointwise(lambda c, a, b, d, value=1: to_real(a) + _scalar_term(value) * to_real(b) * to_real(d)))
_reg(['aten.addcdiv.default', 'aten.addcdiv_.default'],
     pointwise(lambda c, a, b, d, value=1: to_real(a) + _scalar_term(value) * to_real(b) / to_real(d)))
_reg(['aten.lerp.Scalar', 'aten.lerp.Tensor'],
     pointwise(lambda c, a, b, w: to_real(a) + to_real(w) * (to_real(b) - to_real(a))))


def _atan2(c, y, x):
    # abstraction variable with its own axioms (see axioms.py)
    y, x = simp(to_real(y)), simp(to_real(x))
    key = ('atan2', y.sexpr() + ' ' + x.sexpr())
    if key in c.tf:
        return c.tf[key][0]
    v = c.fresh('atan2')
    c.tf[key] = (v, (y, x))
    c.tfvar[v.get_id()] = ('atan2', (y, x), v)
    return v


_reg(['aten.atan2.default'], pointwise(_atan2))


def _floor(c, a):
    a = to_real(a)
    return z3.ToReal(z3.ToInt(a))


_reg(['aten.floor.default', 'aten.floor_.default'], pointwise(_floor))
def _round_half_even(c, a):
    a = to_real(a)
    k = z3.ToReal(z3.ToInt(a + z3.RealVal('1/2')))
    tie = (a + z3.RealVal('1/2')) == k
    odd = k / 2 != z3.ToReal(z3.ToInt(k / 2))
    return z3.If(z3.And(tie, odd), k - 1, k)


_reg(['aten.round.default', 'aten.round_.default'], pointwise(_round_half_even))
_reg(['aten.remainder.Scalar', 'aten.remainder.Tensor'],
     pointwise(lambda c, a, b: to_real(a) - to_real(b) * z3.ToReal(z3.ToInt(to_real(a) / to_real(b)))))
_reg(['aten.ceil.default'], pointwise(lambda c, a: -z3.ToReal(z3.ToInt(-to_real(a)))))
_reg(['aten.trunc.default'], pointwise(lambda c, a: z3.If(to_real(a) >= 0, z3.ToReal(z3.ToInt(to_real(a))),
                                                            -z3.ToReal(z3.ToInt(-to_real(a))))))
_reg(['aten.floor_divide.default'], pointwise(lambda c, a, b: z3.ToReal(z3.ToInt(to_real(a) / to_real(b))),
                                              lambda c, a, b: to_real(b) == 0))


# --------------------------------------------------------------------------- conversions, copies

@handler('aten._to_copy.default', 'aten.clone.default', 'aten.contiguous.default')
def _to_copy(m, func, args, kwargs):
    src = args[0]
    out = func(*args, **kwargs)
    ts = m.terms(src)
    if out.dtype.is_floating_point and src.dtype == torch.bool and getattr(m.ctx, 'split_bool_casts', False):
        # case split: a symbolic mask turned into 0/1 weights is decided element by element (one path per region)
        vals = m.concrete_vals(src)
        dec = [None if x is None else m.ctx.decide(to_bool(x), bool(v)) for x, v in zip(ts, vals)]
        with _disable_current_modes():
            fixed = torch.tensor([bool(v) if d is None else d for d, v in zip(dec, vals)], dtype=torch.bool).view(src.shape)
            out.copy_(fixed.to(out.dtype))
        m.clear(out)
        return out
    _record_downcast(m, src, out, ts)
    if out.dtype.is_floating_point:
        ts = [None if x is None else to_real(x) for x in ts]
    elif out.dtype == torch.bool:
        ts = [None if x is None else to_bool(x) for x in ts]
    else:
        ts = [_trunc_term(x) for x in ts]
    m.write(out, ts, m.poisons(src) if m.ctx.track_poison else None)
    return out


def _trunc_term(x):
    # float -> int: truncation toward zero
    if x is None or z3.is_int(x):
        return x
    x = to_real(x)
    return z3.If(x >= 0, z3.ToInt(x), -z3.ToInt(-x))


def _record_downcast(m, src, out, ts):
    """symbolic data cast to a LOWER floating-point precision (or from float to an integer type) inside the code under test:
    invisible (or nearly) over the reals, recorded so that harnesses can state "no precision-reducing cast of the caller's data"
    as an obligation.  Called for _to_copy and for copy_ (slice assignment into a buffer of another dtype)."""
    if not (isinstance(src, torch.Tensor) and src.dtype.is_floating_point and out.dtype != src.dtype and any(x is not None for x in ts)):
        return
    if out.dtype.is_floating_point:
        if not torch.finfo(out.dtype).eps > torch.finfo(src.dtype).eps:
            return
    elif out.dtype == torch.bool:
        return
    f_, where = sys._getframe(2), None
    for _ in range(60):
        if f_ is None:
            break
        fn_ = f_.f_code.co_filename
        if '/pypose/' in fn_ and '/verif/' not in fn_:
            where = '%s:%s' % (fn_.split('/pypose/', 1)[1], f_.f_code.co_qualname)
            break
        f_ = f_.f_back
    if where is not None:
        m.ctx.downcasts = getattr(m.ctx, 'downcasts', []) + ['%s -> %s in pypose/%s' % (src.dtype, out.dtype, where)]


@handler('aten.copy_.default')
def _copy_(m, func, args, kwargs):
    dst, src = args[0], args[1]
    cols = _bcast(m, [src], dst.shape, m.terms)[0]
    pcols = _bcast(m, [src], dst.shape, m.poisons)[0] if m.ctx.track_poison else None
    _record_downcast(m, src, dst, cols)
    if dst.dtype.is_floating_point:
        cols = [None if x is None else to_real(x) for x in cols]
    elif dst.dtype != torch.bool and isinstance(src, torch.Tensor) and src.dtype.is_floating_point:
        cols = [_trunc_term(x) for x in cols]
    out = func(*args, **kwargs)
    # concrete source elements: value is now in dst's payload -> concrete
    m.write(dst, cols, pcols)
    return out


# --------------------------------------------------------------------------- data movement

def _is_val(a):
    return isinstance(a, torch.Tensor) and (a.dtype.is_floating_point or a.dtype == torch.bool)


def movement(m, func, args, kwargs):
    """Generic: rerun the operator on element-id tensors to learn where each input element lands."""
    name = str(func)
    inplace = name.split('.')[1].endswith('_')
    pool = [None]
    ppool = [None]
    track = m.ctx.track_poison

    def conv(a):
        ft = m.terms(a)
        base = len(pool)
        pool.extend(ft)
        if track:
            ppool.extend(m.poisons(a))
        return (torch.arange(a.numel(), dtype=torch.float64) + base).view(a.shape)

    with _disable_current_modes():
        a2 = tree_map(lambda a: conv(a) if _is_val(a) else a, args)
        k2 = tree_map(lambda a: conv(a) if _is_val(a) else a, kwargs)
        if inplace:
            a2 = (a2[0].clone(),) + tuple(a2[1:])
        prov = func(*a2, **k2)
    out = func(*args, **kwargs)

    def wr(o, p):
        ids = [int(i) for i in p.reshape(-1).tolist()]
        m.write(o, [pool[i] if i > 0 else None for i in ids],
                [ppool[i] if i > 0 else None for i in ids] if track else None)
    if isinstance(out, torch.Tensor):
        wr(args[0] if inplace else out, prov)
    else:
        for o, p in zip(out, prov):
            if isinstance(o, torch.Tensor):
                wr(o, p)
    return out


for _n in ('aten.cat.default', 'aten.stack.default', 'aten.repeat.default', 'aten.index_select.default',
           'aten.flip.default', 'aten.gather.default', 'aten.tril.default', 'aten.triu.default',
           'aten.diag_embed.default', 'aten.roll.default', 'aten.select_backward.default',
           'aten.slice_backward.default', 'aten.constant_pad_nd.default', 'aten.index_copy_.default',
           'aten.index_copy.default', 'aten.scatter.src', 'aten.scatter_.src', 'aten.select_scatter.default',
           'aten.slice_scatter.default', 'aten.diagonal_scatter.default', 'aten.as_strided_scatter.default',
           'aten.take.default', 'aten.repeat_interleave.self_int', 'aten.expand_copy.default',
           'aten.diagonal_copy.default', 'aten.permute_copy.default', 'aten.diagonal_backward.default',
           'aten.tril_.default', 'aten.triu_.default', 'aten.unfold_backward.default', 'aten.diag.default',
           'aten.block_diag.default', 'aten.index_fill.int_Scalar', 'aten.scatter.value', 'aten.rot90.default',
           'aten.hstack.default', 'aten.vstack.default', 'aten.masked_scatter.default'):
    HANDLERS[_n] = movement


def _force_mask(m, t):
    """decide every element of a symbolic bool tensor; returns a concrete bool tensor consistent with the PC"""
    ts = m.terms(t)
    vals = m.concrete_vals(t)
    res = []
    for x, v in zip(ts, vals):
        if x is None:
            res.append(bool(v))
        else:
            res.append(m.ctx.decide(to_bool(x), bool(v)))
    with _disable_current_modes():
        return torch.tensor(res, dtype=torch.bool).view(t.shape)


def _fix_indices(m, idxs):
    out = []
    for i in idxs:
        if i is not None and isinstance(i, torch.Tensor) and m.is_sym(i):
            if i.dtype != torch.bool:
                raise Unsupported('symbolic integer index')
            i = _force_mask(m, i)
        out.append(i)
    return out


@handler('aten.index.Tensor', 'aten._unsafe_index.Tensor')
def _index(m, func, args, kwargs):
    self_t, idxs = args[0], _fix_indices(m, args[1])
    out = func(self_t, idxs)
    ft = m.terms(self_t)
    with _disable_current_modes():
        prov = aten.index.Tensor(torch.arange(self_t.numel()).view(self_t.shape), idxs)
    ids = prov.reshape(-1).tolist()
    pp = m.poisons(self_t) if m.ctx.track_poison else None
    m.write(out, [ft[i] for i in ids], [pp[i] for i in ids] if pp else None)
    return out


@handler('aten.index_put_.default', 'aten.index_put.default', 'aten._unsafe_index_put.default')
def _index_put(m, func, args, kwargs):
    self_t, idxs, vals = args[0], _fix_indices(m, args[1]), args[2]
    accumulate = args[3] if len(args) > 3 else kwargs.get('accumulate', False)
    ft = m.terms(self_t)
    fv = m.terms(vals)
    track = m.ctx.track_poison
    pt = m.poisons(self_t) if track else None
    pv = m.poisons(vals) if track else None
    inplace = str(func).split('.')[1].endswith('_')
    out = func(self_t, idxs, vals, *args[3:], **kwargs)
    tgt = self_t if inplace else out
    tgt_out = tgt
    if accumulate:
        acc = [to_real(t) for t in m.full_terms(self_t)]
        with _disable_current_modes():
            T_ids = torch.arange(self_t.numel()).view(self_t.shape)
            tgt = aten.index.Tensor(T_ids, idxs)
            vexp = torch.arange(vals.numel()).view(vals.shape).expand(tgt.shape).reshape(-1).tolist()
            tgt = tgt.reshape(-1).tolist()
        fvv = [to_real(t) for t in m.full_terms(vals)]
        for t, v in zip(tgt, vexp):
            acc[t] = acc[t] + fvv[v]
        ptot = None
        if track:
            ptot = list(pt)
            for t, v in zip(tgt, vexp):
                ptot[t] = _por([ptot[t], pv[v]])
        m.write(tgt_tensor_placeholder if False else tgt_out, [simp(a) for a in acc], ptot)
        return out
    n = self_t.numel()
    with _disable_current_modes():
        ids = torch.arange(n, dtype=torch.float64).view(self_t.shape).clone()
        vid = -(torch.arange(vals.numel(), dtype=torch.float64).view(vals.shape) + 1)
        prov = aten.index_put.default(ids, idxs, vid)
    res, pres = [], []
    for p in prov.reshape(-1).tolist():
        p = int(p)
        if p >= 0:
            res.append(ft[p])
            pres.append(pt[p] if track else None)
        else:
            res.append(fv[-p - 1])
            pres.append(pv[-p - 1] if track else None)
    m.write(tgt, res, pres if track else None)
    return out


@handler('aten.masked_select.default')
def _masked_select(m, func, args, kwargs):
    self_t, mask = args
    if m.is_sym(mask):
        mask = _force_mask(m, mask)
    out = func(self_t, mask)
    ft = m.terms(self_t)
    with _disable_current_modes():
        prov = aten.masked_select.default(torch.arange(self_t.numel()).view(self_t.shape).expand(
            torch.broadcast_shapes(self_t.shape, mask.shape)), mask)
    m.write(out, [ft[i] for i in prov.reshape(-1).tolist()])
    return out


@handler('aten.nonzero.default', 'aten.nonzero_numpy.default')
def _nonzero(m, func, args, kwargs):
    t = args[0]
    if t.dtype != torch.bool:
        raise Unsupported('nonzero of non-bool symbolic tensor')
    mask = _force_mask(m, t)
    with _disable_current_modes():
        out = func(mask)
    for o in (out if isinstance(out, (list, tuple)) else [out]):
        m.clear(o)
    return out


@handler('aten._local_scalar_dense.default', 'aten.is_nonzero.default', 'aten.item.default')
def _item(m, func, args, kwargs):
    t = args[0]
    out = func(*args, **kwargs)
    x = m.terms(t)[0]
    if x is None:
        return out
    if z3.is_bool(x):
        return m.ctx.decide(x, bool(out))
    if 'is_nonzero' in str(func):
        return m.ctx.decide(to_bool(x), bool(out))
    raise Unsupported('symbolic %s escapes to Python via item()' % x.sort())


@handler('aten.any.default', 'aten.all.default', 'aten.any.dim', 'aten.all.dim', 'aten.any.dims', 'aten.all.dims')
def _anyall(m, func, args, kwargs):
    out = func(*args, **kwargs)
    x = args[0]
    rows = _reduce_rows(x, args[1] if len(args) > 1 else kwargs.get('dim', None))
    ts = [to_bool(t) for t in m.full_terms(x)]
    isany = 'any' in str(func)
    m.write(out, [simp((z3.Or if isany else z3.And)([ts[i] for i in row])) if row else z3.BoolVal(not isany)
                  for row in rows])
    return out


@handler('aten._is_all_true.default', 'aten._is_any_true.default')
def _is_all_true(m, func, args, kwargs):
    out = func(*args, **kwargs)
    ts = [to_bool(t) for t in m.full_terms(args[0])]
    isany = 'any' in str(func)
    m.write(out, [simp((z3.Or if isany else z3.And)(ts)) if ts else z3.BoolVal(not isany)])
    return out


@handler('aten.allclose.default')
def _allclose(m, func, args, kwargs):
    a, b = args[0], args[1]
    rtol = args[2] if len(args) > 2 else kwargs.get('rtol', 1e-5)
    atol = args[3] if len(args) > 3 else kwargs.get('atol', 1e-8)
    out = func(*args, **kwargs)
    shape = torch.broadcast_shapes(a.shape, b.shape)
    A, B = _bcast(m, [a, b], shape, m.full_terms)
    ab = lambda x: z3.If(x >= 0, x, -x)
    pred = z3.And([ab(to_real(x) - to_real(y)) <= rat(atol) + rat(rtol) * ab(to_real(y)) for x, y in zip(A, B)])
    return m.ctx.decide(pred, bool(out))


@handler('aten.equal.default')
def _equal(m, func, args, kwargs):
    a, b = args
    out = func(*args, **kwargs)
    if a.shape != b.shape:
        return out
    pred = z3.And([to_real(x) == to_real(y) for x, y in zip(m.full_terms(a), m.full_terms(b))])
    return m.ctx.decide(pred, bool(out))


# --------------------------------------------------------------------------- reductions

def _reduce_rows(x, dims):
    """list of rows of flat element indices: one row per output element (logical order)"""
    if dims is None or (isinstance(dims, (list, tuple)) and len(dims) == 0):
        dims = list(range(x.dim()))
    if isinstance(dims, int):
        dims = [dims]
    dims = sorted(set(d % x.dim() for d in dims)) if x.dim() else []
    with _disable_current_modes():
        ids = torch.arange(x.numel()).view(x.shape)
        keep = [d for d in range(x.dim()) if d not in dims]
        ids = ids.permute(keep + dims).reshape(math.prod([x.shape[d] for d in keep]), -1)
        return ids.tolist()


def _row_poison(m, x, rows):
    if not m.ctx.track_poison:
        return None
    pp = m.poisons(x)
    return [_por([pp[i] for i in row]) for row in rows]


@handler('aten.sum.dim_IntList', 'aten.sum.default')
def _sum(m, func, args, kwargs):
    out = func(*args, **kwargs)
    x = args[0]
    rows = _reduce_rows(x, args[1] if len(args) > 1 else kwargs.get('dim', None))
    ft = [to_real(t) for t in m.full_terms(x)]
    m.write(out, [simp(z3.Sum([ft[i] for i in row])) if row else z3.RealVal(0) for row in rows],
            _row_poison(m, x, rows))
    return out


@handler('aten.mean.dim', 'aten.mean.default')
def _mean(m, func, args, kwargs):
    out = func(*args, **kwargs)
    x = args[0]
    rows = _reduce_rows(x, args[1] if len(args) > 1 else kwargs.get('dim', None))
    ft = [to_real(t) for t in m.full_terms(x)]
    m.write(out, [simp(z3.Sum([ft[i] for i in row]) / len(row)) for row in rows], _row_poison(m, x, rows))
    return out


@handler('aten.prod.dim_int', 'aten.prod.default')
def _prod(m, func, args, kwargs):
    out = func(*args, **kwargs)
    x = args[0]
    rows = _reduce_rows(x, args[1] if len(args) > 1 else None)
    ft = [to_real(t) for t in m.full_terms(x)]
    m.write(out, [simp(z3.Product([ft[i] for i in row])) for row in rows], _row_poison(m, x, rows))
    return out


@handler('aten.cumsum.default')
def _cumsum(m, func, args, kwargs):
    out = func(*args, **kwargs)
    x, dim = args[0], args[1]
    ft = [to_real(t) for t in m.full_terms(x)]
    with _disable_current_modes():
        ids = torch.arange(x.numel()).view(x.shape).movedim(dim, -1).reshape(-1, x.shape[dim]).tolist()
        pos = torch.arange(x.numel()).view(x.shape).movedim(dim, -1).reshape(-1).tolist()
    res = [None] * x.numel()
    rnd = m.ctx.round_u is not None and out.dtype.is_floating_point
    for row in ids:
        acc = z3.RealVal(0)
        for k_, i in enumerate(row):
            acc = simp(acc + ft[i])
            if rnd and k_ > 0:
                # rounding mode: every partial sum carries its own relative error (standard model; the order of summation is the
                # kernel's business, any order satisfies a bound of this form per addition)
                dlt = m.ctx.fresh('delta')
                m.ctx.deltas.append(dlt)
                acc = acc * (1 + dlt)
            res[i] = acc
    m.write(out, res)
    return out


@handler('aten._softmax.default', 'aten._log_softmax.default')
def _softmax(m, func, args, kwargs):
    """by definition: exp(x_i) / sum_j exp(x_j) along dim (log_softmax: x_i - log sum_j exp(x_j))"""
    out = func(*args, **kwargs)
    x, dim = args[0], args[1]
    ft = [to_real(t) for t in m.full_terms(x)]
    if x.dim() == 0:
        rows = [[0]]
    else:
        with _disable_current_modes():
            rows = torch.arange(x.numel()).view(x.shape).movedim(dim, -1).reshape(-1, x.shape[dim]).tolist()
    res = [None] * x.numel()
    islog = 'log_softmax' in str(func)
    for row in rows:
        es = [m.ctx.tfun('exp', ft[i]) for i in row]
        tot = simp(z3.Sum(es)) if len(es) > 1 else es[0]
        for i, e in zip(row, es):
            res[i] = simp(ft[i] - m.ctx.tfun('log', tot)) if islog else simp(e / tot)
            if m.ctx.round_u is not None:
                dlt = m.ctx.fresh('delta')
                m.ctx.deltas.append(dlt)
                res[i] = res[i] * (1 + dlt)
    m.write(out, res)
    return out


def _minmax_terms(ts, ismax):
    acc = ts[0]
    for t in ts[1:]:
        acc = z3.If(t > acc, t, acc) if ismax else z3.If(t < acc, t, acc)
    return simp(acc)


@handler('aten.amax.default', 'aten.amin.default', 'aten.max.default', 'aten.min.default')
def _amax(m, func, args, kwargs):
    out = func(*args, **kwargs)
    x = args[0]
    rows = _reduce_rows(x, args[1] if len(args) > 1 else kwargs.get('dim', None))
    ft = [to_real(t) for t in m.full_terms(x)]
    ismax = 'max' in str(func)
    m.write(out, [_minmax_terms([ft[i] for i in row], ismax) for row in rows])
    return out


@handler('aten.linalg_vector_norm.default', 'aten.norm.ScalarOpt_dim', 'aten.norm.Scalar')
def _vnorm(m, func, args, kwargs):
    out = func(*args, **kwargs)
    x = args[0]
    ord_ = args[1] if len(args) > 1 and args[1] is not None else kwargs.get('ord', kwargs.get('p', 2))
    rows = _reduce_rows(x, args[2] if len(args) > 2 else kwargs.get('dim', None))
    ft = [to_real(t) for t in m.full_terms(x)]
    ab = lambda t: z3.If(t >= 0, t, -t)
    res = []
    for row in rows:
        if ord_ == 2:
            res.append(m.ctx.tfun('sqrt', z3.Sum([ft[i] * ft[i] for i in row])))
        elif ord_ == 1:
            res.append(simp(z3.Sum([ab(ft[i]) for i in row])))
        elif ord_ == float('inf'):
            res.append(_minmax_terms([ab(ft[i]) for i in row], True))
        else:
            raise Unsupported('norm ord %r' % ord_)
    m.write(out, res, _row_poison(m, x, rows))
    return out


def _matprod(A, B, n, k, p):
    return [simp(z3.Sum([A[i * k + l] * B[l * p + j] for l in range(k)])) if k else z3.RealVal(0)
            for i in range(n) for j in range(p)]


def _mat_poison(m, a, b, n, k, p, batch=1):
    if not m.ctx.track_poison:
        return None
    pa, pb = m.poisons(a), m.poisons(b)
    res = []
    for q in range(batch):
        for i in range(n):
            for j in range(p):
                res.append(_por([pa[(q * n + i) * k + l] for l in range(k)] + [pb[(q * k + l) * p + j] for l in range(k)]))
    return res


@handler('aten.mm.default')
def _mm(m, func, args, kwargs):
    out = func(*args, **kwargs)
    a, b = args
    A = [to_real(t) for t in m.full_terms(a)]
    B = [to_real(t) for t in m.full_terms(b)]
    n, k = a.shape
    _, p = b.shape
    m.write(out, _matprod(A, B, n, k, p), _mat_poison(m, a, b, n, k, p))
    return out


@handler('aten.bmm.default')
def _bmm(m, func, args, kwargs):
    out = func(*args, **kwargs)
    a, b = args
    A = [to_real(t) for t in m.full_terms(a)]
    B = [to_real(t) for t in m.full_terms(b)]
    bs, n, k = a.shape
    _, _, p = b.shape
    res = []
    for q in range(bs):
        res += _matprod(A[q * n * k:(q + 1) * n * k], B[q * k * p:(q + 1) * k * p], n, k, p)
    m.write(out, res, _mat_poison(m, a, b, n, k, p, bs))
    return out


@handler('aten.mv.default')
def _mv(m, func, args, kwargs):
    out = func(*args, **kwargs)
    a, b = args
    A = [to_real(t) for t in m.full_terms(a)]
    B = [to_real(t) for t in m.full_terms(b)]
    n, k = a.shape
    m.write(out, _matprod(A, B, n, k, 1), _mat_poison(m, a, b.unsqueeze(-1), n, k, 1))
    return out


@handler('aten.dot.default', 'aten.vdot.default')
def _dot(m, func, args, kwargs):
    out = func(*args, **kwargs)
    a, b = args
    A = [to_real(t) for t in m.full_terms(a)]
    B = [to_real(t) for t in m.full_terms(b)]
    m.write(out, _matprod(A, B, 1, len(A), 1))
    return out


@handler('aten.addmm.default')
def _addmm(m, func, args, kwargs):
    out = func(*args, **kwargs)
    c, a, b = args[:3]
    beta, alpha = rat(kwargs.get('beta', 1)), rat(kwargs.get('alpha', 1))
    A = [to_real(t) for t in m.full_terms(a)]
    B = [to_real(t) for t in m.full_terms(b)]
    n, k = a.shape
    _, p = b.shape
    C = _bcast(m, [c], out.shape, m.full_terms)[0]
    P = _matprod(A, B, n, k, p)
    m.write(out, [simp(beta * to_real(x) + alpha * y) for x, y in zip(C, P)])
    return out


@handler('aten.baddbmm.default')
def _baddbmm(m, func, args, kwargs):
    out = func(*args, **kwargs)
    c, a, b = args[:3]
    beta, alpha = rat(kwargs.get('beta', 1)), rat(kwargs.get('alpha', 1))
    A = [to_real(t) for t in m.full_terms(a)]
    B = [to_real(t) for t in m.full_terms(b)]
    bs, n, k = a.shape
    _, _, p = b.shape
    C = _bcast(m, [c], out.shape, m.full_terms)[0]
    P = []
    for q in range(bs):
        P += _matprod(A[q * n * k:(q + 1) * n * k], B[q * k * p:(q + 1) * k * p], n, k, p)
    m.write(out, [simp(beta * to_real(x) + alpha * y) for x, y in zip(C, P)])
    return out


@handler('aten.linalg_cross.default')
def _cross(m, func, args, kwargs):
    out = func(*args, **kwargs)
    a, b = args[0], args[1]
    dim = kwargs.get('dim', args[2] if len(args) > 2 else -1)
    if dim not in (-1, out.dim() - 1):
        raise Unsupported('cross along non-last dim')
    A, B = _bcast(m, [a, b], out.shape, m.full_terms)
    res = []
    for r in range(out.numel() // 3):
        a0, a1, a2 = [to_real(t) for t in A[3 * r:3 * r + 3]]
        b0, b1, b2 = [to_real(t) for t in B[3 * r:3 * r + 3]]
        res += [a1 * b2 - a2 * b1, a2 * b0 - a0 * b2, a0 * b1 - a1 * b0]
    pres = None
    if m.ctx.track_poison:
        PA, PB = _bcast(m, [a, b], out.shape, m.poisons)
        pres = []
        for r in range(out.numel() // 3):
            p = _por(PA[3 * r:3 * r + 3] + PB[3 * r:3 * r + 3])
            pres += [p, p, p]
    m.write(out, [simp(x) for x in res], pres)
    return out


@handler('aten.trace.default')
def _trace(m, func, args, kwargs):
    out = func(*args, **kwargs)
    x = args[0]
    ft = m.full_terms(x)
    n, k = x.shape
    m.write(out, [simp(z3.Sum([to_real(ft[i * k + i]) for i in range(min(n, k))]))])
    return out


def det_terms(M, n):
    if n == 1:
        return M[0]
    if n == 2:
        return M[0] * M[3] - M[1] * M[2]
    if n == 3:
        a, b, c, d, e, f, g, h, i = M
        return a * (e * i - f * h) - b * (d * i - f * g) + c * (d * h - e * g)
    # Laplace along first row
    tot = []
    for j in range(n):
        minor = [M[r * n + cc] for r in range(1, n) for cc in range(n) if cc != j]
        tot.append((1 if j % 2 == 0 else -1) * M[j] * det_terms(minor, n - 1))
    return z3.Sum(tot)


def adjugate_terms(M, n):
    if n == 1:
        return [z3.RealVal(1)]
    adj = [None] * (n * n)
    for i in range(n):
        for j in range(n):
            minor = [M[r * n + c] for r in range(n) if r != i for c in range(n) if c != j]
            cof = det_terms(minor, n - 1)
            adj[j * n + i] = cof if (i + j) % 2 == 0 else -cof
    return adj


@handler('aten._linalg_det.default', 'aten.linalg_det.default')
def _det(m, func, args, kwargs):
    out = func(*args, **kwargs)
    x = args[0]
    n = x.shape[-1]
    if n > 4:
        raise Unsupported('det n>4')
    ft = [to_real(t) for t in m.full_terms(x)]
    nb = x.numel() // (n * n) if n else 0
    dets = [simp(det_terms(ft[b * n * n:(b + 1) * n * n], n)) for b in range(nb)]
    m.ctx.det_log = getattr(m.ctx, 'det_log', []) + [dets]
    o0 = out[0] if isinstance(out, (tuple, list)) else out
    m.write(o0, dets)
    if isinstance(out, (tuple, list)):
        for o in out[1:]:
            m.clear(o)
            # LU / pivots are only used by the backward: make them unusable
    return out


@handler('aten.linalg_inv_ex.default')
def _inv_ex(m, func, args, kwargs):
    out = func(*args, **kwargs)
    x = args[0]
    n = x.shape[-1]
    if n > 4:
        raise Unsupported('inverse n>4')
    ft = [to_real(t) for t in m.full_terms(x)]
    nb = x.numel() // (n * n)
    res, pres = [], []
    for b in range(nb):
        M = ft[b * n * n:(b + 1) * n * n]
        d = simp(det_terms(M, n))
        adj = adjugate_terms(M, n)
        res += [simp(a / d) for a in adj]
        pres += [simp(d == 0)] * (n * n)
    m.write(out[0], res, pres if m.ctx.track_poison else None)
    m.clear(out[1])
    m.ctx.stubs.add('linalg_inv_ex: adjugate/det formula (n<=4); info flag concrete 0')
    return out


def cholesky_terms(ctx, M, n, pivots=None):
    """lower Cholesky factor by the algorithm (sqrt abstraction); pivots: list receiving the arguments of the square roots"""
    L = [[z3.RealVal(0)] * n for _ in range(n)]
    for j in range(n):
        s = M[j * n + j] - z3.Sum([L[j][k] * L[j][k] for k in range(j)]) if j else M[j * n + j]
        if pivots is not None:
            pivots.append(s)
        L[j][j] = ctx.tfun('sqrt', s)
        for i in range(j + 1, n):
            s = M[i * n + j] - z3.Sum([L[i][k] * L[j][k] for k in range(j)]) if j else M[i * n + j]
            L[i][j] = simp(s / L[j][j])
    return [L[i][j] for i in range(n) for j in range(n)]


# --------------------------------------------------------------------------- path exploration

class PathResult:
    def __init__(self, ctx, value=None, error=None, raised=None):
        self.ctx, self.value, self.error, self.raised = ctx, value, error, raised


def explore(program, max_paths=64, max_decisions=40, feas_timeout_ms=2000, track_poison=False, assume_fn=None,
            f32=False):
    """Run `program(m)` (m: SymMode, active) on every feasible decision path (depth-first by re-execution).
    program returns an arbitrary value (usually dict of term lists).  Yields PathResult."""
    stack = [[]]
    npaths = 0
    while stack:
        forced = stack.pop()
        if npaths >= max_paths:
            raise BoundExhausted('more than %d paths' % max_paths)
        ctx = Ctx(forced=forced, max_decisions=max_decisions, feas_timeout_ms=feas_timeout_ms,
                  track_poison=track_poison)
        ctx.f32 = f32
        err = None
        val = None
        raised = None
        try:
            with SymMode(ctx) as m:
                val = program(m)
        except Infeasible:
            continue
        except (Unsupported, BoundExhausted) as e:
            err = e
        except Exception as e:      # the program under test raised on this path: a path outcome, not an engine error
            raised = e
        npaths += 1
        # schedule alternatives for decisions made beyond the forced prefix
        for i in range(len(ctx.trace) - 1, len(forced) - 1, -1):
            pred, taken, alt = ctx.trace[i]
            if alt:
                stack.append([t for (_, t, _) in ctx.trace[:i]] + [not taken])
        yield PathResult(ctx, val, err, raised)


# --------------------------------------------------------------------------- accumulate-style movement

@handler('aten.scatter_add.default', 'aten.scatter_add_.default')
def _scatter_add(m, func, args, kwargs):
    self_t, dim, index, src = args[0], args[1], args[2], args[3]
    inplace = str(func).split('.')[1].endswith('_')
    ft = [to_real(t) for t in m.full_terms(self_t)]
    fs = [to_real(t) for t in m.full_terms(src)]
    with _disable_current_modes():
        T = torch.arange(self_t.numel()).view(self_t.shape)
        tgt = torch.gather(T, dim, index).reshape(-1).tolist()
        sl = tuple(slice(0, s) for s in index.shape)
        sid = torch.arange(src.numel()).view(src.shape)[sl].reshape(-1).tolist()
    out = func(*args, **kwargs)
    acc = list(ft)
    for t, s in zip(tgt, sid):
        acc[t] = acc[t] + fs[s]
    m.write(self_t if inplace else out, [simp(a) for a in acc])
    return out


@handler('aten.index_add.default', 'aten.index_add_.default')
def _index_add(m, func, args, kwargs):
    self_t, dim, index, src = args[0], args[1], args[2], args[3]
    alpha = rat(kwargs.get('alpha', 1))
    inplace = str(func).split('.')[1].endswith('_')
    ft = [to_real(t) for t in m.full_terms(self_t)]
    fs = [to_real(t) for t in m.full_terms(src)]
    with _disable_current_modes():
        T = torch.arange(self_t.numel()).view(self_t.shape)
        tgt = T.index_select(dim, index).reshape(-1).tolist()
    out = func(*args, **kwargs)
    acc = list(ft)
    for t, s in zip(tgt, fs):
        acc[t] = acc[t] + alpha * s
    m.write(self_t if inplace else out, [simp(a) for a in acc])
    return out


# --------------------------------------------------------------------------- out= variants

def _out_variant(base_name):
    def h(m, func, args, kwargs):
        out_t = kwargs['out']
        kw = {k: v for k, v in kwargs.items() if k != 'out'}
        base = HANDLERS[base_name]
        basefunc = getattr(getattr(aten, base_name.split('.')[1]), base_name.split('.')[2])
        res = base(m, basefunc, args, kw)
        # copy into out (terms and payload)
        ts = m.terms(res)
        with _disable_current_modes():
            out_t.copy_(res)
        m.write(out_t, ts)
        return out_t
    return h


for _b in ('mm', 'bmm', 'mv', 'add', 'sub', 'mul', 'div'):
    _bn = 'aten.%s.%s' % (_b, 'default' if _b in ('mm', 'bmm', 'mv') else 'Tensor')
    HANDLERS['aten.%s.out' % _b] = _out_variant(_bn)


# --------------------------------------------------------------------------- LAPACK-class kernels as contract stubs

def _sym_lower(ctx, n, name):
    L = [[z3.RealVal(0)] * n for _ in range(n)]
    for i in range(n):
        for j in range(i + 1):
            L[i][j] = ctx.fresh('%s_%d%d' % (name, i, j))
    return L


def _leading_minors(M, n):
    return [det_terms([M[r * n + c] for r in range(k) for c in range(k)], k) for k in range(1, n + 1)]


@handler('aten.linalg_cholesky_ex.default')
def _cholesky_ex_stub(m, func, args, kwargs):
    """contract stub (LAPACK potrf): info==0 <=> A symmetric positive definite (Sylvester), and then L lower, diag>0,
    L L^T == A.  If info != 0 the factor is an arbitrary finite matrix."""
    A = args[0]
    upper = kwargs.get('upper', False)
    n = A.shape[-1]
    if n > 4:
        raise Unsupported('cholesky_ex stub n>4')
    out = func(*args, **kwargs)
    L_t, info_t = out[0], out[1]
    ft = [to_real(t) for t in m.full_terms(A)]
    nb = A.numel() // (n * n)
    ctx = m.ctx
    Lterms, infos = [], []
    for b in range(nb):
        M = ft[b * n * n:(b + 1) * n * n]
        if getattr(ctx, 'chol_algorithmic', False):
            # (harness option) the factor by the Cholesky-Banachiewicz recurrences over the reals instead of fresh variables tied by
            # L L^T = A: the same function on positive definite input (uniqueness of the factor), info==0 <=> every pivot positive
            tri_ = lambda i, j: (i, j) if ((j <= i) != bool(upper)) or i == j else (j, i)
            Ms_ = [M[tri_(i, j)[0] * n + tri_(i, j)[1]] for i in range(n) for j in range(n)]
            piv = []
            La = cholesky_terms(ctx, Ms_, n, piv)
            info = ctx.fresh('chol_info', 'int')
            ctx.axioms += [(info == 0) == z3.And([a_ > 0 for a_ in piv])]
            Lterms += ([La[j * n + i] for i in range(n) for j in range(n)] if upper else La)
            infos.append(info)
            continue
        L = _sym_lower(ctx, n, 'chol')
        info = ctx.fresh('chol_info', 'int')
        LLt = [z3.Sum([L[i][k] * L[j][k] for k in range(n)]) for i in range(n) for j in range(n)]
        # potrf reads one triangle only
        tri = [(i, j) for i in range(n) for j in range(n) if (j <= i if not upper else j >= i)]
        Ms = list(M)
        for i in range(n):
            for j in range(n):
                src = (i, j) if (i, j) in tri else (j, i)
                Ms[i * n + j] = M[src[0] * n + src[1]]
        pd = z3.And([d > 0 for d in _leading_minors(Ms, n)])
        ctx.relations += [(info == 0, LLt[i] - Ms[i]) for i in range(n * n)]
        ctx.axioms += [(info == 0) == pd,
                       z3.Implies(info == 0, z3.And([LLt[i] == Ms[i] for i in range(n * n)] + [L[i][i] > 0 for i in range(n)]))]
        if upper:
            Lterms += [L[j][i] for i in range(n) for j in range(n)]
        else:
            Lterms += [L[i][j] for i in range(n) for j in range(n)]
        infos.append(info)
    m.write(L_t, Lterms)
    m.write(info_t, infos)
    for t_, v_ in zip(Lterms, m.concrete_vals(L_t)):
        if z3.is_const(t_) and not z3.is_rational_value(t_):
            ctx.env[str(t_)] = v_
    for t_, v_ in zip(infos, m.concrete_vals(info_t)):
        ctx.env[str(t_)] = v_
    ctx.stubs.add('linalg.cholesky_ex: contract stub (info==0 <=> leading minors of the read triangle > 0; then L L^T = A, diag > 0)')
    return out


@handler('aten.linalg_cholesky.default', 'aten.cholesky.default')
def _cholesky_alg(m, func, args, kwargs):
    A = args[0]
    upper = kwargs.get('upper', args[1] if len(args) > 1 else False)
    n = A.shape[-1]
    if n > 4:
        raise Unsupported('cholesky n>4')
    out = func(*args, **kwargs)
    ft = [to_real(t) for t in m.full_terms(A)]
    nb = A.numel() // (n * n)
    res = []
    pois = []
    inp_p = m.poisons(A) if m.ctx.track_poison else None
    for b in range(nb):
        piv = []
        L = cholesky_terms(m.ctx, ft[b * n * n:(b + 1) * n * n], n, piv)
        if m.ctx.track_poison:
            # not positive definite (a non-positive pivot: torch raises / LAPACK returns garbage) poisons the whole factor
            bad = [simp(a_ <= 0) for a_ in piv]
            bad += [p_ for p_ in inp_p[b * n * n:(b + 1) * n * n] if p_ is not None]
            pois += [simp(z3.Or(bad))] * (n * n)
        if upper:
            L = [L[j * n + i] for i in range(n) for j in range(n)]
        res += L
    m.write(out, res, pois if m.ctx.track_poison else None)
    m.ctx.stubs.add('linalg.cholesky: by the Cholesky-Banachiewicz algorithm over reals (input assumed PD)')
    return out


def _solve_lower(L, B, n, k):
    """forward substitution L Y = B (B n x k, row-major)"""
    Y = [None] * (n * k)
    for c in range(k):
        for i in range(n):
            s = B[i * k + c] - (z3.Sum([L[i * n + j] * Y[j * k + c] for j in range(i)]) if i else 0)
            Y[i * k + c] = simp(s / L[i * n + i])
    return Y


def _solve_upper(U, B, n, k):
    Y = [None] * (n * k)
    for c in range(k):
        for i in range(n - 1, -1, -1):
            s = B[i * k + c] - (z3.Sum([U[i * n + j] * Y[j * k + c] for j in range(i + 1, n)]) if i < n - 1 else 0)
            Y[i * k + c] = simp(s / U[i * n + i])
    return Y


@handler('aten.cholesky_solve.default')
def _cholesky_solve(m, func, args, kwargs):
    """by definition: X = (L L^T)^-1 B via two triangular substitutions (reads the stated triangle only)"""
    B, L_t = args[0], args[1]
    upper = args[2] if len(args) > 2 else kwargs.get('upper', False)
    n, k = B.shape[-2], B.shape[-1]
    if n > 4:
        raise Unsupported('cholesky_solve n>4')
    out = func(*args, **kwargs)
    fb = [to_real(t) for t in m.full_terms(B)]
    fl = [to_real(t) for t in m.full_terms(L_t)]
    nb = B.numel() // (n * k)
    nl = L_t.numel() // (n * n)
    res = []
    for b in range(nb):
        Lm = fl[(b % nl) * n * n:((b % nl) + 1) * n * n]
        if upper:
            Lm = [Lm[j * n + i] for i in range(n) for j in range(n)]     # L = U^T
        Lm = [Lm[i * n + j] if j <= i else z3.RealVal(0) for i in range(n) for j in range(n)]
        Bm = fb[b * n * k:(b + 1) * n * k]
        Y = _solve_lower(Lm, Bm, n, k)
        Lt = [Lm[j * n + i] for i in range(n) for j in range(n)]
        X = _solve_upper(Lt, Y, n, k)
        res += X
    m.write(out, res)
    return out


@handler('aten.linalg_solve_triangular.default')
def _solve_triangular(m, func, args, kwargs):
    """by definition: substitution with the stated triangle of A (left=True: A X = B)"""
    A, B = args[0], args[1]
    upper = kwargs.get('upper', args[2] if len(args) > 2 else False)
    left = kwargs.get('left', args[3] if len(args) > 3 else True)
    unit = kwargs.get('unitriangular', args[4] if len(args) > 4 else False)
    out = func(*args, **kwargs)
    n = A.shape[-1]
    if n > 4:
        raise Unsupported('solve_triangular n>4')
    # left=False:  X A = B  <=>  A^T X^T = B^T  (the transposed triangle)
    rows_b, cols_b = B.shape[-2], B.shape[-1]
    k = cols_b if left else rows_b
    shape = torch.broadcast_shapes(A.shape[:-2], B.shape[:-2])
    with _disable_current_modes():
        Ae, Be = A.expand(shape + A.shape[-2:]), B.expand(shape + B.shape[-2:])
    fa = [to_real(t) for t in m.full_terms(Ae)]
    fb = [to_real(t) for t in m.full_terms(Be)]
    nb = max(1, math.prod(shape))
    res = []
    for b in range(nb):
        Am = fa[b * n * n:(b + 1) * n * n]
        keep = (lambda i, j: j >= i) if upper else (lambda i, j: j <= i)
        Am = [(z3.RealVal(1) if (unit and i == j) else Am[i * n + j]) if keep(i, j) else z3.RealVal(0) for i in range(n) for j in range(n)]
        Bm = fb[b * rows_b * cols_b:(b + 1) * rows_b * cols_b]
        up = upper
        if not left:
            Am = [Am[j * n + i] for i in range(n) for j in range(n)]
            Bm = [Bm[j * cols_b + i] for i in range(cols_b) for j in range(rows_b)]      # B^T: n x k
            up = not upper
        X = (_solve_upper if up else _solve_lower)(Am, Bm, n, k)
        if not left:
            X = [X[j * k + i] for i in range(k) for j in range(n)]                      # back to k x n
        res += X
    m.write(out, res)
    return out


def _nonzero_tol(v):
    if v is None or isinstance(v, bool):
        return False
    try:
        return float(v) != 0.0
    except Exception:
        return False


@handler('aten.linalg_pinv.atol_rtol_tensor', 'aten.linalg_pinv.atol_rtol_float', 'aten.linalg_pinv.default', 'aten.pinverse.default')
def _pinv_stub(m, func, args, kwargs):
    """contract stub: P = pinv(A) is a fresh matrix satisfying the four Moore-Penrose equations; for square A with
    det != 0 additionally P == A^-1 (n <= 3, adjugate formula)."""
    A = args[0]
    out = func(*args, **kwargs)
    r, c = A.shape[-2], A.shape[-1]
    if r > 4 or c > 4:
        raise Unsupported('pinv stub larger than 4')
    ft = [to_real(t) for t in m.full_terms(A)]
    nb = A.numel() // (r * c)
    ctx = m.ctx
    res = []
    for b in range(nb):
        M = [[ft[b * r * c + i * c + j] for j in range(c)] for i in range(r)]
        P = [[ctx.fresh('pinv_%d%d' % (i, j)) for j in range(r)] for i in range(c)]
        mm_ = lambda X, Y: [[z3.Sum([X[i][l] * Y[l][j] for l in range(len(Y))]) for j in range(len(Y[0]))] for i in range(len(X))]
        AP, PA = mm_(M, P), mm_(P, M)
        APA, PAP = mm_(AP, M), mm_(PA, P)
        ax = []
        ax += [APA[i][j] == M[i][j] for i in range(r) for j in range(c)]
        ax += [PAP[i][j] == P[i][j] for i in range(c) for j in range(r)]
        ax += [AP[i][j] == AP[j][i] for i in range(r) for j in range(i)]
        ax += [PA[i][j] == PA[j][i] for i in range(c) for j in range(i)]
        if r == c and r <= 3:
            flatM = [M[i][j] for i in range(r) for j in range(r)]
            d = det_terms(flatM, r)
            adj = adjugate_terms(flatM, r)
            # with a non-default tolerance the kernel truncates small singular values: it is the inverse only for
            # matrices that are well-conditioned relative to that tolerance (an unconstrained fresh predicate here)
            tol_given = any(_nonzero_tol(kwargs.get(kk)) for kk in ('atol', 'rtol')) or any(_nonzero_tol(a_) for a_ in args[1:3])
            guard = d != 0
            if tol_given:
                guard = z3.And(guard, ctx.fresh('pinv_well_conditioned', 'bool'))
            ax.append(z3.Implies(guard, z3.And([P[i][j] * d == adj[i * r + j] for i in range(r) for j in range(r)])))
            ctx.relations += [(guard, P[i][j] * d - adj[i * r + j]) for i in range(r) for j in range(r)]
        ctx.axioms += ax
        res += [P[i][j] for i in range(c) for j in range(r)]
    m.write(out, res)
    for t_, v_ in zip(res, m.concrete_vals(out)):
        ctx.env[str(t_)] = v_
    ctx.stubs.add('linalg.pinv: contract stub (four Moore-Penrose equations; = inverse when square and det != 0)')
    ctx.pinv_calls = getattr(ctx, 'pinv_calls', []) + [dict(kwargs, nargs=len(args), P=list(res), A=list(ft), shape=(r, c), extra=list(args[1:]))]
    return out


@handler('aten.linalg_lstsq.default')
def _lstsq_stub(m, func, args, kwargs):
    """contract stub: solution X is a fresh matrix satisfying the normal equations A^T (A X - B) == 0"""
    A, B = args[0], args[1]
    out = func(*args, **kwargs)
    r, c, k = A.shape[-2], A.shape[-1], B.shape[-1]
    if max(r, c) > 4:
        raise Unsupported('lstsq stub larger than 4')
    fa = [to_real(t) for t in m.full_terms(A)]
    fb = [to_real(t) for t in m.full_terms(B)]
    nb = A.numel() // (r * c)
    ctx = m.ctx
    res = []
    for b in range(nb):
        M = [[fa[b * r * c + i * c + j] for j in range(c)] for i in range(r)]
        Bm = [[fb[b * r * k + i * k + j] for j in range(k)] for i in range(r)]
        X = [[ctx.fresh('lstsq_%d%d' % (i, j)) for j in range(k)] for i in range(c)]
        for j in range(k):
            resid = [z3.Sum([M[i][l] * X[l][j] for l in range(c)]) - Bm[i][j] for i in range(r)]
            for l in range(c):
                ctx.axioms.append(z3.Sum([M[i][l] * resid[i] for i in range(r)]) == 0)
        res += [X[i][j] for i in range(c) for j in range(k)]
    m.write(out[0], res)
    for t_, v_ in zip(res, m.concrete_vals(out[0])):
        ctx.env[str(t_)] = v_
    for o in out[1:]:
        m.clear(o)
    ctx.stubs.add('linalg.lstsq: contract stub (normal equations)')
    ctx.lstsq_calls = getattr(ctx, 'lstsq_calls', []) + [dict(kwargs, nargs=len(args), extra=[a for a in args[2:]], X=list(res))]
    return out


@handler('aten._linalg_check_errors.default')
def _linalg_check_errors(m, func, args, kwargs):
    """torch raises LinAlgError when info != 0: a decision on the (symbolic) status flag"""
    info = args[0]
    ts = m.terms(info)
    pred = z3.And([to_real(t) == 0 for t in ts if t is not None])
    ok = m.ctx.decide(pred, True)
    if not ok:
        raise torch.linalg.LinAlgError('%s: the input is not positive-definite / factorisation failed (symbolic status flag != 0)' % args[1])
    return None


# --------------------------------------------------------------------------- order-dependent kernels (decisions)

def _decide_order(m, ts, descending=False):
    """sort indices of the term list by decisions on pairwise comparisons (insertion sort; ties resolved as the decision
    falls: harnesses exclude ties by assumption where indices matter).  Returns the permutation (list of indices)."""
    order = []
    for i in range(len(ts)):
        pos = len(order)
        for k, j in enumerate(order):
            # does i come before j ?
            pred = (ts[i] > ts[j]) if descending else (ts[i] < ts[j])
            if m.ctx.decide(pred, None):
                pos = k
                break
        order.insert(pos, i)
    return order


def _rows_along(x, dim):
    """[(list of flat element ids along dim)] for every other index combination, and the output layout helper"""
    with _disable_current_modes():
        ids = torch.arange(x.numel()).view(x.shape).movedim(dim, -1)
        lead = ids.shape[:-1]
        return ids.reshape(-1, x.shape[dim]).tolist(), lead


@handler('aten.topk.default')
def _topk(m, func, args, kwargs):
    x, k = args[0], args[1]
    dim = args[2] if len(args) > 2 else kwargs.get('dim', -1)
    largest = args[3] if len(args) > 3 else kwargs.get('largest', True)
    dim = dim % x.dim()
    ft = [to_real(t) for t in m.full_terms(x)]
    rows, lead = _rows_along(x, dim)
    vals_t, idx_c = [], []
    for row in rows:
        perm = _decide_order(m, [ft[e] for e in row], descending=largest)[:k]
        vals_t.append([ft[row[p]] for p in perm])
        idx_c.append(perm)
    with _disable_current_modes():
        idx = torch.tensor(idx_c, dtype=torch.int64).view(tuple(lead) + (k,)).movedim(-1, dim).contiguous()
        vals = torch.gather(x.detach(), dim, idx).contiguous()
    flat_terms = [None] * vals.numel()
    with _disable_current_modes():
        pos = torch.arange(vals.numel()).view(vals.shape).movedim(dim, -1).reshape(-1, k).tolist()
    for r, prow in enumerate(pos):
        for c, e in enumerate(prow):
            flat_terms[e] = vals_t[r][c]
    m.write(vals, flat_terms)
    m.clear(idx)
    return torch.return_types.topk((vals, idx))


@handler('aten.sort.default', 'aten.sort.stable', 'aten.argsort.default', 'aten.argsort.stable')
def _sort(m, func, args, kwargs):
    x = args[0]
    dim = kwargs.get('dim', -1)
    descending = kwargs.get('descending', False)
    pos_args = [a for a in args[1:] if not isinstance(a, torch.Tensor)]
    name = str(func)
    if 'stable' in name:
        # (self, *, stable, dim, descending)
        if len(pos_args) > 1:
            dim = pos_args[1]
        if len(pos_args) > 2:
            descending = pos_args[2]
    else:
        if len(pos_args) > 0:
            dim = pos_args[0]
        if len(pos_args) > 1:
            descending = pos_args[1]
    dim = dim % x.dim() if x.dim() else 0
    ft = [to_real(t) for t in m.full_terms(x)]
    rows, lead = _rows_along(x, dim)
    n = x.shape[dim] if x.dim() else 1
    perms = [_decide_order(m, [ft[e] for e in row], descending=descending) for row in rows]
    with _disable_current_modes():
        idx = torch.tensor(perms, dtype=torch.int64).view(tuple(lead) + (n,)).movedim(-1, dim).contiguous()
        vals = torch.gather(x.detach(), dim, idx).contiguous()
        pos = torch.arange(vals.numel()).view(vals.shape).movedim(dim, -1).reshape(-1, n).tolist()
    flat_terms = [None] * vals.numel()
    for r, prow in enumerate(pos):
        for c, e in enumerate(prow):
            flat_terms[e] = ft[rows[r][perms[r][c]]]
    m.clear(idx)
    if 'argsort' in name:
        return idx
    m.write(vals, flat_terms)
    return torch.return_types.sort((vals, idx))


@handler('aten.min.dim', 'aten.max.dim')
def _minmax_dim(m, func, args, kwargs):
    """values as If-chains (no decision); the index output is made symbolic-opaque (fresh ints) so that any use of it as an
    index is reported as not encoded instead of silently following the concrete payload"""
    x, dim = args[0], args[1]
    out = func(*args, **kwargs)
    rows = _reduce_rows(x, dim)
    ft = [to_real(t) for t in m.full_terms(x)]
    ismax = 'max' in str(func)
    if getattr(m.ctx, 'minmax_decide', False):
        # (harness option) the position of the extremum is decided (one path per ordering outcome): the index output is then concrete
        # on the path and may be used for indexing
        idx = [_decide_order(m, [ft[i] for i in row], descending=ismax)[0] for row in rows]
        m.write(out[0], [ft[row[k]] for row, k in zip(rows, idx)])
        with _disable_current_modes():
            out[1].copy_(torch.tensor(idx, dtype=out[1].dtype).view(out[1].shape))
        m.clear(out[1])
        m.ctx.deviated = True
        return out
    m.write(out[0], [_minmax_terms([ft[i] for i in row], ismax) for row in rows])
    m.write(out[1], [m.ctx.fresh('argidx', 'int') for _ in range(out[1].numel())])
    return out


@handler('aten.searchsorted.Tensor')
def _searchsorted(m, func, args, kwargs):
    """1-D sorted sequence, arbitrary values: the insertion index of each value is found by deciding comparisons in sequence order
    (the count of leading elements <= v resp. < v; equal to the binary search result on an ascending sequence)"""
    seq, vals = args[0], args[1]
    right = kwargs.get('right', False) or kwargs.get('side', None) == 'right'
    if seq.dim() != 1 or kwargs.get('sorter', None) is not None:
        raise Unsupported('searchsorted on a batched sequence / with sorter')
    out = func(*args, **kwargs)
    st = [to_real(t) for t in m.full_terms(seq)]
    res = []
    for v in [to_real(t) for t in m.full_terms(vals)]:
        k = 0
        while k < len(st) and m.ctx.decide((st[k] <= v) if right else (st[k] < v), None):
            k += 1
        res.append(k)
    with _disable_current_modes():
        out.copy_(torch.tensor(res, dtype=out.dtype).view(out.shape))
    m.clear(out)
    m.ctx.deviated = True
    return out


@handler('aten.argmin.default', 'aten.argmax.default')
def _argminmax(m, func, args, kwargs):
    x = args[0]
    dim = args[1] if len(args) > 1 else kwargs.get('dim', None)
    keepdim = args[2] if len(args) > 2 else kwargs.get('keepdim', False)
    ft = [to_real(t) for t in m.full_terms(x)]
    ismax = 'max' in str(func)
    if dim is None:
        rows, lead = [list(range(x.numel()))], ()
    else:
        rows, lead = _rows_along(x, dim % x.dim())
    res = [_decide_order(m, [ft[e] for e in row], descending=ismax)[0] for row in rows]
    with _disable_current_modes():
        out = torch.tensor(res, dtype=torch.int64).view(tuple(lead))
        if keepdim and dim is not None:
            out = out.unsqueeze(dim)
    m.clear(out)
    return out


@handler('aten.unique_dim.default', 'aten._unique2.default')
def _unique(m, func, args, kwargs):
    """unique rows of a symbolic integer tensor: pairwise equality / lexicographic order of rows are decisions; the real kernel is
    then run on concrete surrogate rows (ranks) that realise the decided pattern"""
    x = args[0]
    name = str(func)
    if 'unique_dim' in name:
        dim = args[1] % x.dim()
        if dim != 0 or x.dim() != 2:
            raise Unsupported('unique along a dim other than rows of a 2-D tensor')
        N, D = x.shape
        ft = m.full_terms(x)
        rows = [[to_real(t) for t in ft[i * D:(i + 1) * D]] for i in range(N)]
    else:
        N, D = x.numel(), 1
        rows = [[to_real(t)] for t in m.full_terms(x)]

    def lex_lt(a, b):
        # a < b lexicographically
        expr = z3.BoolVal(False)
        for u, v in reversed(list(zip(a, b))):
            expr = z3.Or(u < v, z3.And(u == v, expr))
        return expr
    # insertion into ordered classes
    classes = []        # list of lists of row ids, ordered ascending
    for i in range(N):
        placed = False
        for ci, cl in enumerate(classes):
            rep = rows[cl[0]]
            if m.ctx.decide(z3.And([u == v for u, v in zip(rows[i], rep)]), None):
                cl.append(i)
                placed = True
                break
            if m.ctx.decide(lex_lt(rows[i], rep), None):
                classes.insert(ci, [i])
                placed = True
                break
        if not placed:
            classes.append([i])
    rank = {}
    for r, cl in enumerate(classes):
        for i in cl:
            rank[i] = r
    with _disable_current_modes():
        if 'unique_dim' in name:
            sur = torch.tensor([[rank[i]] + [0] * (D - 1) for i in range(N)], dtype=x.dtype)
            out = func(sur, *args[1:], **kwargs)
        else:
            sur = torch.tensor([rank[i] for i in range(N)], dtype=x.dtype).view(x.shape)
            out = func(sur, *args[1:], **kwargs)
    # unique values: terms of each class representative, in class order
    uniq = out[0]
    ut = []
    for cl in classes:
        ut += rows[cl[0]]
    with _disable_current_modes():
        uq = torch.zeros(uniq.shape if 'unique_dim' not in name else (len(classes), D), dtype=x.dtype)
    m.write(uq, ut)
    for o in out[1:]:
        m.clear(o)
    return (uq,) + tuple(out[1:])


@handler('aten._linalg_svd.default', 'aten.linalg_svd.default')
def _svd_stub(m, func, args, kwargs):
    """contract stub (LAPACK gesdd): U, Vh orthogonal (so det = +-1), S sorted non-negative, A = U diag(S) Vh   (square n <= 3)"""
    A = args[0]
    out = func(*args, **kwargs)
    n = A.shape[-1]
    if A.shape[-2] != n or n > 3:
        raise Unsupported('svd stub: only square n <= 3')
    ft = [to_real(t) for t in m.full_terms(A)]
    nb = A.numel() // (n * n)
    ctx = m.ctx
    Ut, St, Vt = [], [], []
    for b in range(nb):
        M = ft[b * n * n:(b + 1) * n * n]
        U = [[ctx.fresh('svdU_%d%d' % (i, j)) for j in range(n)] for i in range(n)]
        V = [[ctx.fresh('svdVh_%d%d' % (i, j)) for j in range(n)] for i in range(n)]
        S = [ctx.fresh('svdS_%d' % i) for i in range(n)]
        ax = []
        for X in (U, V):
            XXt = [[z3.Sum([X[i][k] * X[j][k] for k in range(n)]) for j in range(n)] for i in range(n)]
            XtX = [[z3.Sum([X[k][i] * X[k][j] for k in range(n)]) for j in range(n)] for i in range(n)]
            ax += [XXt[i][j] == (1 if i == j else 0) for i in range(n) for j in range(i + 1)]
            ax += [XtX[i][j] == (1 if i == j else 0) for i in range(n) for j in range(i + 1)]
            d = det_terms([X[i][j] for i in range(n) for j in range(n)], n)
            ax.append(z3.Or(d == 1, d == -1))
        ax += [S[i] >= S[i + 1] for i in range(n - 1)] + [S[n - 1] >= 0]
        # consequence of orthogonality, stated explicitly because callers test it: det(U Vh) = det(U) det(Vh) = +-1
        UV = [simp(z3.Sum([U[i][k] * V[k][j] for k in range(n)])) for i in range(n) for j in range(n)]
        duv = det_terms(UV, n)
        ctx.svd_det_facts = getattr(ctx, 'svd_det_facts', []) + [z3.Or(duv == 1, duv == -1)]
        ax += ctx.svd_det_facts[-1:]
        USV = [[z3.Sum([U[i][k] * S[k] * V[k][j] for k in range(n)]) for j in range(n)] for i in range(n)]
        ax += [USV[i][j] == M[i * n + j] for i in range(n) for j in range(n)]
        ctx.axioms += ax
        Ut += [U[i][j] for i in range(n) for j in range(n)]
        St += S
        Vt += [V[i][j] for i in range(n) for j in range(n)]
    m.write(out[0], Ut)
    m.write(out[1], St)
    m.write(out[2], Vt)
    for o, ts in ((out[0], Ut), (out[1], St), (out[2], Vt)):
        for t_, v_ in zip(ts, m.concrete_vals(o)):
            ctx.env[str(t_)] = v_
    ctx.stubs.add('linalg.svd: contract stub (U, Vh orthogonal with det +-1, S sorted >= 0, A = U diag(S) Vh)')
    return out


@handler('aten.median.default')
def _median(m, func, args, kwargs):
    x = args[0]
    ft = [to_real(t) for t in m.full_terms(x)]
    if getattr(m.ctx, 'median_havoc', False):
        # the harness does not use the median: an unconstrained fresh value instead of ordering decisions
        with _disable_current_modes():
            out = x.detach().reshape(-1)[0].clone()
        m.write(out, [m.ctx.fresh('median')])
        m.ctx.stubs.add('median: unconstrained fresh value (not used by the obligations)')
        return out
    perm = _decide_order(m, ft, descending=False)
    k = (len(ft) - 1) // 2           # torch returns the lower median
    with _disable_current_modes():
        out = x.detach().reshape(-1)[perm[k]].clone()
    m.write(out, [ft[perm[k]]])
    return out


@handler('aten.std.correction', 'aten.var.correction', 'aten.std.default', 'aten.var.default')
def _std(m, func, args, kwargs):
    out = func(*args, **kwargs)
    x = args[0]
    dim = args[1] if len(args) > 1 and not isinstance(args[1], bool) else kwargs.get('dim', None)
    corr = kwargs.get('correction', 1)
    corr = 1 if corr is None else corr
    rows = _reduce_rows(x, dim)
    ft = [to_real(t) for t in m.full_terms(x)]
    res = []
    for row in rows:
        n = len(row)
        mean = z3.Sum([ft[i] for i in row]) / n
        var = z3.Sum([(ft[i] - mean) * (ft[i] - mean) for i in row]) / (n - corr)
        res.append(m.ctx.tfun('sqrt', var) if 'std' in str(func) else simp(var))
    m.write(out, res)
    return out
