"""Utilities over z3 real terms: numeric evaluation, symbolic differentiation, sympy bridge, small matrices."""
import math
from fractions import Fraction

import z3

K = z3
_FN = {'sin': math.sin, 'cos': math.cos, 'exp': math.exp, 'atan': math.atan, 'asin': math.asin,
       'acos': math.acos, 'tanh': math.tanh, 'expm1': math.expm1, 'log1p': math.log1p}


def evalf(e, env, tfvar=None, cache=None):
    """Evaluate z3 term numerically (python floats / bools).  env: {var name: float}.  tfvar: ctx.tfvar.
    Division by zero yields nan."""
    if cache is None:
        cache = {}
    stack = [e]
    nan = float('nan')
    while stack:
        t = stack[-1]
        k = t.get_id()
        if k in cache:
            stack.pop()
            continue
        if z3.is_rational_value(t):
            try:
                cache[k] = t.numerator_as_long() / t.denominator_as_long()
            except OverflowError:
                cache[k] = float('inf') if (t.numerator_as_long() > 0) == (t.denominator_as_long() > 0) else float('-inf')
            stack.pop()
            continue
        if z3.is_int_value(t):
            cache[k] = t.as_long()
            stack.pop()
            continue
        if z3.is_true(t):
            cache[k] = True
            stack.pop()
            continue
        if z3.is_false(t):
            cache[k] = False
            stack.pop()
            continue
        if z3.is_const(t):
            name = str(t)
            if name in env:
                cache[k] = env[name]
                stack.pop()
                continue
            if name == 'pi':
                cache[k] = math.pi
                stack.pop()
                continue
            if tfvar is not None and k in tfvar:
                f, a, v = tfvar[k]
                args = list(a) if isinstance(a, tuple) else [a]
                missing = [x for x in args if x.get_id() not in cache]
                if missing:
                    stack.extend(missing)
                    continue
                av = [cache[x.get_id()] for x in args]
                try:
                    if f == 'sqrt':
                        r = math.sqrt(av[0]) if av[0] >= 0 else nan
                    elif f == 'cbrt':
                        r = math.copysign(abs(av[0]) ** (1 / 3), av[0])
                    elif f == 'log':
                        r = math.log(av[0]) if av[0] > 0 else nan
                    elif f == 'atan2':
                        r = math.atan2(av[0], av[1])
                    else:
                        r = _FN[f](av[0])
                except (ValueError, OverflowError):
                    r = nan
                cache[k] = r
                stack.pop()
                continue
            raise KeyError('no value for %s' % name)
        ch = t.children()
        missing = [c for c in ch if c.get_id() not in cache]
        if missing:
            stack.extend(missing)
            continue
        v = [cache[c.get_id()] for c in ch]
        d = t.decl().kind()
        try:
            if d == z3.Z3_OP_ADD:
                r = sum(v)
            elif d == z3.Z3_OP_SUB:
                r = v[0] - sum(v[1:])
            elif d == z3.Z3_OP_UMINUS:
                r = -v[0]
            elif d == z3.Z3_OP_MUL:
                r = 1.0
                for x in v:
                    r = r * x
            elif d == z3.Z3_OP_DIV:
                r = v[0] / v[1] if v[1] != 0 else nan
            elif d == z3.Z3_OP_ITE:
                r = v[1] if v[0] else v[2]
            elif d == z3.Z3_OP_LE:
                r = v[0] <= v[1]
            elif d == z3.Z3_OP_LT:
                r = v[0] < v[1]
            elif d == z3.Z3_OP_GE:
                r = v[0] >= v[1]
            elif d == z3.Z3_OP_GT:
                r = v[0] > v[1]
            elif d == z3.Z3_OP_EQ:
                r = v[0] == v[1]
            elif d == z3.Z3_OP_DISTINCT:
                r = len(set(v)) == len(v)
            elif d == z3.Z3_OP_AND:
                r = all(v)
            elif d == z3.Z3_OP_OR:
                r = any(v)
            elif d == z3.Z3_OP_NOT:
                r = not v[0]
            elif d == z3.Z3_OP_XOR:
                r = bool(v[0]) != bool(v[1])
            elif d == z3.Z3_OP_IMPLIES:
                r = (not v[0]) or v[1]
            elif d == z3.Z3_OP_TO_REAL:
                r = float(v[0])
            elif d == z3.Z3_OP_TO_INT:
                r = math.floor(v[0])
            elif d == z3.Z3_OP_POWER:
                r = v[0] ** v[1]
            else:
                raise NotImplementedError(str(t.decl()))
        except OverflowError:
            r = nan
        cache[k] = r
        stack.pop()
    return cache[e.get_id()]


def diff(e, x, tfvar=None, ctx=None, cache=None):
    """symbolic derivative of z3 real term e w.r.t. variable x; chain rule through abstraction variables.
    If-conditions are treated as locally constant (valid away from the switching surface)."""
    if cache is None:
        cache = {}
    k = e.get_id()
    if k in cache:
        return cache[k]
    Z, O = z3.RealVal(0), z3.RealVal(1)
    if z3.is_rational_value(e):
        r = Z
    elif z3.is_const(e):
        if e.eq(x):
            r = O
        elif tfvar and k in tfvar:
            f, a, v = tfvar[k]
            if f == 'atan2':
                y, xx = a
                dy, dx = diff(y, x, tfvar, ctx, cache), diff(xx, x, tfvar, ctx, cache)
                r = (xx * dy - y * dx) / (xx * xx + y * y)
            else:
                da = diff(a, x, tfvar, ctx, cache)
                if z3.is_rational_value(da) and da.numerator_as_long() == 0:
                    r = Z
                elif f == 'sqrt':
                    r = da / (2 * v)
                elif f == 'cbrt':
                    r = da / (3 * v * v)
                elif f == 'sin':
                    r = ctx.tfun('cos', a) * da
                elif f == 'cos':
                    r = -ctx.tfun('sin', a) * da
                elif f == 'exp':
                    r = v * da
                elif f == 'expm1':
                    r = (v + 1) * da
                elif f == 'log':
                    r = da / a
                elif f == 'log1p':
                    r = da / (1 + a)
                elif f == 'atan':
                    r = da / (1 + a * a)
                elif f == 'asin':
                    r = da / ctx.tfun('sqrt', 1 - a * a)
                elif f == 'tanh':
                    r = (1 - v * v) * da
                else:
                    raise NotImplementedError(f)
        else:
            r = Z
    else:
        d = e.decl().kind()
        ch = e.children()
        D = lambda c: diff(c, x, tfvar, ctx, cache)
        if d == z3.Z3_OP_ADD:
            r = z3.Sum([D(c) for c in ch])
        elif d == z3.Z3_OP_SUB:
            r = D(ch[0]) - z3.Sum([D(c) for c in ch[1:]])
        elif d == z3.Z3_OP_UMINUS:
            r = -D(ch[0])
        elif d == z3.Z3_OP_MUL:
            terms = []
            for i, c in enumerate(ch):
                dc = D(c)
                if z3.is_rational_value(dc) and dc.numerator_as_long() == 0:
                    continue
                terms.append(z3.Product([dc] + [o for j, o in enumerate(ch) if j != i]))
            r = z3.Sum(terms) if terms else Z
        elif d == z3.Z3_OP_DIV:
            a, b = ch
            da, db = D(a), D(b)
            if z3.is_rational_value(db) and db.numerator_as_long() == 0:
                r = da / b
            else:
                r = (da * b - a * db) / (b * b)
        elif d == z3.Z3_OP_ITE:
            r = z3.If(ch[0], D(ch[1]), D(ch[2]))
        elif d == z3.Z3_OP_TO_REAL:
            r = Z
        else:
            raise NotImplementedError(str(e.decl()))
    r = z3.simplify(r)
    cache[k] = r
    return r


def subst(e, pairs):
    return z3.simplify(z3.substitute(e, *pairs))


# ---------------------------------------------------------------- sympy bridge (untrusted helper)

def safe_name(n):
    return 'V_' + ''.join(ch if ch.isalnum() else '_%d_' % ord(ch) for ch in n)


def to_sympy(e, cache=None, rational=False):
    import sympy
    if cache is None:
        cache = {}
    k = e.get_id()
    if k in cache:
        return cache[k]
    if z3.is_rational_value(e):
        r = sympy.Rational(e.numerator_as_long(), e.denominator_as_long())
    elif z3.is_const(e):
        r = sympy.Symbol(safe_name(str(e)))
    else:
        ch = [to_sympy(c, cache, rational) for c in e.children()]
        d = e.decl().kind()
        if d == z3.Z3_OP_ADD:
            r = sympy.Add(*ch)
        elif d == z3.Z3_OP_MUL:
            r = sympy.Mul(*ch)
        elif d == z3.Z3_OP_SUB:
            r = ch[0] - sum(ch[1:])
        elif d == z3.Z3_OP_UMINUS:
            r = -ch[0]
        elif d == z3.Z3_OP_DIV:
            if not ch[1].is_Rational and not rational:
                raise NotImplementedError('division by a non-constant')
            r = ch[0] / ch[1]
        else:
            raise NotImplementedError(str(e.decl()))
    cache[k] = r
    return r


def from_sympy(expr, syms):
    if expr.is_Rational:
        return z3.RealVal(str(expr))
    if expr.is_Symbol:
        return syms[str(expr)]
    if expr.is_Add:
        return z3.Sum([from_sympy(a, syms) for a in expr.args])
    if expr.is_Mul:
        return z3.Product([from_sympy(a, syms) for a in expr.args])
    if expr.is_Pow and expr.exp.is_Integer:
        b = from_sympy(expr.base, syms)
        n = int(expr.exp)
        p = z3.Product([b] * abs(n)) if abs(n) > 1 else b
        return p if n > 0 else 1 / p
    raise NotImplementedError(str(expr))


def free_vars(e, acc=None, seen=None):
    if acc is None:
        acc, seen = {}, set()
    stack = [e]
    while stack:
        t = stack.pop()
        k = t.get_id()
        if k in seen:
            continue
        seen.add(k)
        if z3.is_const(t):
            if t.decl().kind() == z3.Z3_OP_UNINTERPRETED:
                acc[str(t)] = t
        else:
            stack.extend(t.children())
    return acc


# ---------------------------------------------------------------- tiny symbolic matrices (lists of lists)

def R(v):
    return z3.RealVal(v) if not isinstance(v, z3.ExprRef) else v


def mat(flat, n, m):
    return [[flat[i * m + j] for j in range(m)] for i in range(n)]


def flat(M):
    return [x for row in M for x in row]


def eye(n):
    return [[z3.RealVal(1 if i == j else 0) for j in range(n)] for i in range(n)]


def zeros(n, m):
    return [[z3.RealVal(0)] * m for _ in range(n)]


def mm(A, B):
    n, k, p = len(A), len(B), len(B[0])
    return [[z3.Sum([A[i][l] * B[l][j] for l in range(k)]) for j in range(p)] for i in range(n)]


def mv(A, v):
    return [z3.Sum([A[i][l] * v[l] for l in range(len(v))]) for i in range(len(A))]


def madd(A, B):
    return [[a + b for a, b in zip(ra, rb)] for ra, rb in zip(A, B)]


def msub(A, B):
    return [[a - b for a, b in zip(ra, rb)] for ra, rb in zip(A, B)]


def mscale(s, A):
    return [[s * a for a in ra] for ra in A]


def tr(A):
    return [list(r) for r in zip(*A)]


def skew(v):
    x, y, z = v
    O = z3.RealVal(0)
    return [[O, -z, y], [z, O, -x], [-y, x, O]]


def dot(a, b):
    return z3.Sum([x * y for x, y in zip(a, b)])


def cross(a, b):
    return [a[1] * b[2] - a[2] * b[1], a[2] * b[0] - a[0] * b[2], a[0] * b[1] - a[1] * b[0]]


def quat_mul(p, q):
    """Hamilton product, (x,y,z,w) layout"""
    pv, pw, qv, qw = p[:3], p[3], q[:3], q[3]
    c = cross(pv, qv)
    return [pw * qv[i] + qw * pv[i] + c[i] for i in range(3)] + [pw * qw - dot(pv, qv)]


def quat_rot(q):
    """rotation matrix of unit quaternion (x,y,z,w), textbook formula"""
    x, y, z, w = q
    return [[1 - 2 * (y * y + z * z), 2 * (x * y - z * w), 2 * (x * z + y * w)],
            [2 * (x * y + z * w), 1 - 2 * (x * x + z * z), 2 * (y * z - x * w)],
            [2 * (x * z - y * w), 2 * (y * z + x * w), 1 - 2 * (x * x + y * y)]]


def block(blocks):
    """block matrix from nested list of matrices"""
    rows = []
    for brow in blocks:
        for i in range(len(brow[0])):
            r = []
            for B in brow:
                r += list(B[i])
            rows.append(r)
    return rows


def divisors(e):
    """all non-constant divisor subterms of e (syntactic): the term denotes the intended rational function wherever none vanishes"""
    out, seen, stack = {}, set(), [e]
    while stack:
        t = stack.pop()
        k = t.get_id()
        if k in seen:
            continue
        seen.add(k)
        if z3.is_app(t) and t.decl().kind() == z3.Z3_OP_DIV:
            b = t.children()[1]
            if not z3.is_rational_value(b):
                out[b.get_id()] = b
        stack.extend(t.children())
    return list(out.values())


def linear_abstract(e, table, cache=None):
    """replace every maximal non-linear subterm (products of non-constants, divisions by non-constants, anything else that is not
    linear arithmetic / boolean structure) by a fresh variable (same subterm -> same variable).  The result over-approximates e:
    if the abstraction is unsatisfiable, so is e."""
    if cache is None:
        cache = {}
    k = e.get_id()
    if k in cache:
        return cache[k]

    def opaque(t):
        key = t.get_id()
        if key not in table:
            v = (z3.Int('lini!%d' % len(table)) if z3.is_int(t) else z3.Real('lin!%d' % len(table))) if z3.is_arith(t) \
                else z3.Bool('linb!%d' % len(table))
            table[key] = (v, t)      # keep t alive: ids are only unique among live terms
        return table[key][0]
    if z3.is_rational_value(e) or z3.is_int_value(e) or z3.is_true(e) or z3.is_false(e):
        r = e
    elif z3.is_const(e):
        r = e
    else:
        d = e.decl().kind()
        ch = e.children()
        if d in (z3.Z3_OP_ADD, z3.Z3_OP_SUB, z3.Z3_OP_UMINUS, z3.Z3_OP_LE, z3.Z3_OP_LT, z3.Z3_OP_GE, z3.Z3_OP_GT, z3.Z3_OP_EQ, z3.Z3_OP_DISTINCT,
                 z3.Z3_OP_AND, z3.Z3_OP_OR, z3.Z3_OP_NOT, z3.Z3_OP_ITE, z3.Z3_OP_IMPLIES, z3.Z3_OP_XOR, z3.Z3_OP_TO_REAL):
            r = e.decl()(*[linear_abstract(c, table, cache) for c in ch])
        elif d == z3.Z3_OP_MUL:
            consts = [c for c in ch if z3.is_rational_value(c)]
            rest = [c for c in ch if not z3.is_rational_value(c)]
            if len(rest) <= 1:
                r = e.decl()(*[linear_abstract(c, table, cache) for c in ch]) if rest else e
            else:
                r = opaque(e)
        elif d == z3.Z3_OP_DIV and z3.is_rational_value(ch[1]):
            r = linear_abstract(ch[0], table, cache) / ch[1]
        else:
            r = opaque(e)
    cache[k] = r
    return r
