"""Sound, quantifier-free axioms for the abstraction variables of transcendental functions.

Each axiom is a true statement about the real functions, instantiated for the argument terms recorded in
ctx.tf.  The abstraction therefore over-approximates: unsat is sound; sat is only a candidate.
"""
import itertools

import z3

from .engine import PI, simp

PI_AX = [PI > z3.RealVal('3.14159265358979'), PI < z3.RealVal('3.14159265358980')]


def _exp_bounds():
    import fractions
    import math
    out = {}
    for k_ in range(-9, 10):
        v = fractions.Fraction(math.exp(k_))
        out[k_] = (z3.RealVal(str(v * fractions.Fraction(999999, 1000000))), z3.RealVal(str(v * fractions.Fraction(1000001, 1000000))))
    return out


_EXP_BOUNDS = _exp_bounds()


def _eq0(d):
    d = simp(d)
    return z3.is_rational_value(d) and d.numerator_as_long() == 0


def angle_table(ctx, create=True):
    """sexpr -> [arg, sinvar, cosvar]; missing partner variables are created"""
    angles = {}
    for (f, k), (v, a) in list(ctx.tf.items()):
        if f == 'sin':
            angles.setdefault(k, [a, None, None])[1] = v
        elif f == 'cos':
            angles.setdefault(k, [a, None, None])[2] = v
    if create:
        for k, ent in angles.items():
            if ent[1] is None:
                ent[1] = ctx.tfun('sin', ent[0])
            if ent[2] is None:
                ent[2] = ctx.tfun('cos', ent[0])
    return angles


def tf_axioms(ctx, taylor=True, pairs=True, level=2):
    ax = list(PI_AX)
    angles = angle_table(ctx)
    byf = {}
    for (f, _), (v, a) in ctx.tf.items():
        byf.setdefault(f, []).append((v, a))
    # congruence (Ackermann)
    if pairs:
        for f, lst in byf.items():
            if f == 'atan2':
                for (v1, (y1, x1)), (v2, (y2, x2)) in itertools.combinations(lst, 2):
                    ax.append(z3.Implies(z3.And(y1 == y2, x1 == x2), v1 == v2))
                continue
            for (v1, a1), (v2, a2) in itertools.combinations(lst, 2):
                ax.append(z3.Implies(a1 == a2, v1 == v2))
    for k, (a, s, c) in angles.items():
        ax += [s * s + c * c == 1]
        ax += [z3.Implies(z3.And(a > 0, a < PI), s > 0), z3.Implies(z3.And(a > -PI, a < 0), s < 0),
               z3.Implies(z3.And(a > -PI / 2, a < PI / 2), c > 0),
               z3.Implies(a == 0, z3.And(s == 0, c == 1)),
               z3.Implies(a == PI / 2, z3.And(s == 1, c == 0)), z3.Implies(a == -PI / 2, z3.And(s == -1, c == 0)),
               z3.Implies(a == PI, z3.And(s == 0, c == -1)), z3.Implies(a == -PI, z3.And(s == 0, c == -1)),
               z3.Implies(z3.And(a > PI / 2, a < 3 * PI / 2), c < 0),
               z3.Implies(a >= 0, s <= a), z3.Implies(a <= 0, s >= a)]
        if taylor:
            a2 = a * a
            # alternating Taylor enclosures, valid for all real a (cos) / a >= 0 resp. a <= 0 (sin)
            ax += [c >= 1 - a2 / 2, c <= 1 - a2 / 2 + a2 * a2 / 24,
                   z3.Implies(a >= 0, z3.And(s >= a - a2 * a / 6, s <= a - a2 * a / 6 + a2 * a2 * a / 120)),
                   z3.Implies(a <= 0, z3.And(s <= a - a2 * a / 6, s >= a - a2 * a / 6 + a2 * a2 * a / 120))]
            if level >= 3:
                ax += [c >= 1 - a2 / 2 + a2 * a2 / 24 - a2 * a2 * a2 / 720]
            # Jordan: sin a >= 2a/pi on [0, pi/2]
            ax += [z3.Implies(z3.And(a >= 0, a <= PI / 2), s >= 2 * a / PI)]
    if pairs:
        for (k1, (a1, s1, c1)), (k2, (a2, s2, c2)) in itertools.permutations(angles.items(), 2):
            if _eq0(a1 - 2 * a2):
                ax += [s1 == 2 * s2 * c2, c1 == 1 - 2 * s2 * s2]
            elif _eq0(a1 + a2):
                if k1 < k2:
                    ax += [s1 == -s2, c1 == c2]
    for A, u in byf.get('atan', []):
        ax += [A > -PI / 2, A < PI / 2, z3.Implies(u > 0, A > 0), z3.Implies(u < 0, A < 0), z3.Implies(u == 0, A == 0),
               z3.Implies(u >= 0, A <= u), z3.Implies(u <= 0, A >= u)]
        if taylor:
            ax += [z3.Implies(u >= 0, A >= u - u * u * u / 3), z3.Implies(u <= 0, A <= u - u * u * u / 3)]
        for k, (a, s, c) in angles.items():
            ax.append(z3.Implies(z3.And(c > 0, a > -PI / 2, a < PI / 2, u * c == s), A == a))
            ax.append(z3.Implies(a == A, z3.And(s == u * c, c > 0)))
            ax.append(z3.Implies(a == -A, z3.And(s == -u * c, c > 0)))
    if pairs:
        for (A1, u1), (A2, u2) in itertools.combinations(byf.get('atan', []), 2):
            ax.append(z3.Implies(u1 == -u2, A1 == -A2))
            ax.append(z3.Implies(u1 < u2, A1 < A2))
            ax.append(z3.Implies(u1 > u2, A1 > A2))
    for A, (y, x) in byf.get('atan2', []):
        ax += [A > -PI, A <= PI,
               z3.Implies(z3.And(y == 0, x > 0), A == 0), z3.Implies(z3.And(y > 0), z3.And(A > 0, A < PI)),
               z3.Implies(z3.And(y < 0), z3.And(A < 0, A > -PI)), z3.Implies(z3.And(y == 0, x < 0), A == PI),
               z3.Implies(x > 0, z3.And(A > -PI / 2, A < PI / 2)),
               z3.Implies(z3.And(x == 0, y > 0), A == PI / 2), z3.Implies(z3.And(x == 0, y < 0), A == -PI / 2)]
        for k, (a, s, c) in angles.items():
            # if (y, x) = r (sin a, cos a) with r > 0 and a in (-pi, pi] then atan2 = a
            ax.append(z3.Implies(z3.And(a > -PI, a <= PI, y * c == x * s, y * s + x * c > 0), A == a))
            ax.append(z3.Implies(z3.And(a == A, z3.Or(x != 0, y != 0)), z3.And(y * c == x * s, y * s + x * c > 0)))
    for A, u in byf.get('asin', []):
        ax += [z3.Implies(z3.And(u >= -1, u <= 1), z3.And(A >= -PI / 2, A <= PI / 2)),
               z3.Implies(u > 0, A > 0), z3.Implies(u < 0, A < 0), z3.Implies(u == 0, A == 0)]
        for k, (a, s, c) in angles.items():
            ax.append(z3.Implies(z3.And(a >= -PI / 2, a <= PI / 2, s == u), A == a))
            ax.append(z3.Implies(a == A, z3.And(s == u, c >= 0)))
    for E, a in byf.get('exp', []):
        ax += [E > 0, E >= 1 + a, z3.Implies(a == 0, E == 1), z3.Implies(a < 1, E * (1 - a) <= 1)]
        # coarse enclosures e^k for integer breakpoints k in [-9, 9] (monotonicity): keeps E within a factor e of its value
        for k_ in range(-9, 10):
            lo, hi = _EXP_BOUNDS[k_]
            ax += [z3.Implies(a <= k_, E <= hi), z3.Implies(a >= k_, E >= lo)]
        if taylor:
            a2 = a * a
            ax += [z3.Implies(a >= 0, E >= 1 + a + a2 / 2 + a2 * a / 6),
                   z3.Implies(a <= 0, z3.And(E <= 1 + a + a2 / 2, E >= 1 + a + a2 / 2 + a2 * a / 6)),
                   z3.Implies(z3.And(a >= 0, a <= 1), E <= 1 + a + a2 / 2 + a2 * a / 6 + a2 * a2 / 24 + a2 * a2 * a / 40)]
    if pairs:
        for (E1, a1), (E2, a2) in itertools.permutations(byf.get('exp', []), 2):
            if _eq0(a1 + a2):
                ax.append(E1 * E2 == 1)
            elif _eq0(a1 - 2 * a2):
                ax.append(E1 == E2 * E2)
        for (E1, a1), (E2, a2) in itertools.combinations(byf.get('exp', []), 2):
            ax.append(z3.Implies(a1 < a2, E1 < E2))
            ax.append(z3.Implies(a1 > a2, E1 > E2))
    for M, a in byf.get('expm1', []):
        ax += [M > -1, M >= a, z3.Implies(a == 0, M == 0), z3.Implies(a < 1, (M + 1) * (1 - a) <= 1)]
        if taylor:
            a2 = a * a
            ax += [z3.Implies(a >= 0, M >= a + a2 / 2 + a2 * a / 6),
                   z3.Implies(a <= 0, z3.And(M <= a + a2 / 2, M >= a + a2 / 2 + a2 * a / 6)),
                   z3.Implies(z3.And(a >= 0, a <= 1), M <= a + a2 / 2 + a2 * a / 6 + a2 * a2 / 24 + a2 * a2 * a / 40)]
        for E, b in byf.get('exp', []):
            if _eq0(a - b):
                ax.append(M == E - 1)
            else:
                ax.append(z3.Implies(a == b, M == E - 1))
    for L, a in byf.get('log', []):
        ax += [z3.Implies(a > 0, L <= a - 1), z3.Implies(a == 1, L == 0), z3.Implies(a > 1, L > 0),
               z3.Implies(z3.And(a > 0, a < 1), L < 0), z3.Implies(a > 0, L * a >= a - 1)]
        for E, b in byf.get('exp', []):
            ax.append(z3.Implies(a == E, L == b))
            ax.append(z3.Implies(L == b, a == E))
    if pairs:
        for (L1, a1), (L2, a2) in itertools.combinations(byf.get('log', []), 2):
            ax.append(z3.Implies(z3.And(a1 > 0, a1 * a2 == 1), L1 + L2 == 0))
            ax.append(z3.Implies(z3.And(a1 > 0, a1 < a2), L1 < L2))
            ax.append(z3.Implies(z3.And(a2 > 0, a2 < a1), L2 < L1))
    for L, a in byf.get('log1p', []):
        ax += [z3.Implies(a > -1, L <= a), z3.Implies(a == 0, L == 0), z3.Implies(a > 0, L > 0),
               z3.Implies(a > -1, L * (1 + a) >= a)]
    if pairs:
        for (L1, a1), (L2, a2) in itertools.combinations(byf.get('log1p', []), 2):
            ax.append(z3.Implies(z3.And(a1 > -1, a1 < a2), L1 < L2))
            ax.append(z3.Implies(z3.And(a2 > -1, a2 < a1), L2 < L1))
    for T, a in byf.get('tanh', []):
        ax += [T > -1, T < 1, z3.Implies(a > 0, T > 0), z3.Implies(a < 0, T < 0), z3.Implies(a == 0, T == 0)]
    if pairs:
        for (v1, a1), (v2, a2) in itertools.combinations(byf.get('sqrt', []), 2):
            pass  # exact definitional axioms already make sqrt monotone
    for v, a in byf.get('cbrt', []):
        ax += [z3.Implies(a > 0, v > 0), z3.Implies(a < 0, v < 0)]
    return ax
