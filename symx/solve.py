"""Solver workers (imported in forkserver children: keep imports light - no torch here)."""
import os
import subprocess
import tempfile
import time


def worker_init():
    """die with the parent (PR_SET_PDEATHSIG) so that no solver process outlives a check"""
    try:
        import ctypes
        import signal
        ctypes.CDLL('libc.so.6').prctl(1, signal.SIGKILL)
    except Exception:
        pass


def _model_dict(z3, m):
    out = {}
    for d in m.decls():
        if d.arity() != 0:
            continue
        v = m[d]
        try:
            if z3.is_rational_value(v):
                out[d.name()] = v.numerator_as_long() / v.denominator_as_long()
            elif z3.is_algebraic_value(v):
                out[d.name()] = float(v.approx(20).as_fraction())
            elif z3.is_int_value(v):
                out[d.name()] = v.as_long()
            elif z3.is_true(v):
                out[d.name()] = True
            elif z3.is_false(v):
                out[d.name()] = False
        except Exception:
            pass
    return out


def _run_old_z3(smt2, timeout_s):
    """z3 4.8.12 binary as an independent portfolio member"""
    with tempfile.NamedTemporaryFile('w', suffix='.smt2', delete=False, dir='/dev/shm' if os.path.isdir('/dev/shm') else None) as f:
        f.write(smt2)
        if '(check-sat)' not in smt2:
            f.write('\n(check-sat)\n')
        path = f.name
    try:
        p = subprocess.run(['/usr/bin/z3', '-T:%d' % max(1, int(timeout_s)), '-smt2', path], capture_output=True,
                           text=True, timeout=timeout_s + 5)
        out = p.stdout.strip()
        if '(error' in out or '(error' in p.stderr:
            return 'unknown'
        first = out.splitlines()[0].strip() if out else 'unknown'
        return first if first in ('sat', 'unsat') else 'unknown'
    except Exception:
        return 'unknown'
    finally:
        try:
            os.unlink(path)
        except OSError:
            pass


def solve(smt2, timeout_s, want_model=True, strategies=('default', 'old', 'nlsat')):
    """returns dict(result, model, strategy, time).  result in sat/unsat/unknown."""
    import z3
    t0 = time.time()
    shares = {'default': 0.4, 'old': 0.3, 'nlsat': 0.3}
    tot = sum(shares[s] for s in strategies)
    res = {'result': 'unknown', 'model': None, 'strategy': None, 'tried': []}
    for st in strategies:
        remaining = timeout_s - (time.time() - t0)
        if remaining <= 0.2:
            break
        budget = max(0.5, min(remaining, timeout_s * shares[st] / tot)) if st != strategies[-1] else remaining
        t1 = time.time()
        try:
            if st == 'old':
                r = _run_old_z3(smt2, budget)
                if r == 'sat' and want_model:
                    # get the model from the API solver on the same query (bounded); else keep unknown model
                    s = z3.Solver()
                    s.set('timeout', int(1000 * min(10, max(1, remaining))))
                    s.from_string(smt2)
                    if str(s.check()) == 'sat':
                        res['model'] = _model_dict(z3, s.model())
                res['tried'].append((st, r, round(time.time() - t1, 3)))
                if r in ('sat', 'unsat'):
                    res.update(result=r, strategy=st)
                    break
                continue
            s = z3.Solver() if st == 'default' else z3.Tactic('qfnra-nlsat').solver()
            s.set('timeout', int(1000 * budget))
            s.from_string(smt2)
            r = str(s.check())
            res['tried'].append((st, r, round(time.time() - t1, 3)))
            if r == 'sat':
                res.update(result='sat', strategy=st, model=_model_dict(z3, s.model()) if want_model else None)
                break
            if r == 'unsat':
                res.update(result='unsat', strategy=st)
                break
        except Exception as e:  # parse problems etc.: inconclusive
            res['tried'].append((st, 'error:%s' % str(e)[:80], round(time.time() - t1, 3)))
    res['time'] = time.time() - t0
    return res


def cert_worker(smt2, nrel, elim, order, timeout_s, bound_mode=False):
    """Certificate search + check in one worker.
    smt2 holds assertions (= __E0 N), (= __E1 g_1) ... (original z3 terms).  sympy (untrusted) proposes cofactors q_i
    and remainder r with N = sum q_i g_i + r; z3 then checks that identity on the ORIGINAL terms as a free polynomial
    identity.  Returns dict(ok, remainder (sympy string, safe names), names (safe->orig), time)."""
    import signal
    import z3
    import sympy
    from symx.terms import to_sympy, from_sympy, free_vars, safe_name, divisors
    t0 = time.time()

    def _alarm(*a):
        raise TimeoutError()
    signal.signal(signal.SIGALRM, _alarm)
    signal.alarm(max(1, int(timeout_s)))
    try:
        asr = z3.parse_smt2_string(smt2)
        terms = {}
        for a in asr:
            l, r = a.children()
            if str(l).startswith('__E'):
                terms[int(str(l)[3:])] = r
            else:
                terms[int(str(r)[3:])] = l
        N = terms[0]
        G = [terms[i + 1] for i in range(nrel)]
        fv = {}
        for e in [N] + G:
            free_vars(e, fv, set())
        fvs = {safe_name(k): v for k, v in fv.items()}
        el = [safe_name(e) for e in elim if safe_name(e) in fvs]
        gens = el + sorted(n for n in fvs if n not in el)
        syms = [sympy.Symbol(g) for g in gens]
        den = None
        rel_rational = False
        try:
            Gs = []
            for g in G:
                try:
                    Gs.append(sympy.expand(to_sympy(g)))
                except NotImplementedError:
                    # rational relation: its numerator vanishes wherever the relation holds and its divisors do not
                    gn, gd = sympy.fraction(sympy.together(to_sympy(g, None, True)))
                    Gs.append(sympy.expand(gn))
                    rel_rational = True
            try:
                Ns = sympy.expand(to_sympy(N))
            except NotImplementedError:
                if bound_mode:
                    raise
                # rational function: clear denominators (z3 re-checks everything below)
                num, den = sympy.fraction(sympy.together(to_sympy(N, None, True)))
                Ns = sympy.expand(num)
                den = sympy.factor(den)
        except NotImplementedError as e:
            return {'ok': False, 'why': 'not polynomial: %s' % e, 'time': time.time() - t0}
        if el and Gs and order == 'lex':
            # the relations are not a Groebner basis: multivariate division tries the divisors in list order, so put the relation whose
            # leading term involves the most significant eliminated variable first and, among those, mixed products (L10*L00) before
            # pure powers (L00^2) - the ordering under which Cholesky-type relation sets reduce completely.  (Only a heuristic for the
            # untrusted search: z3 checks the identity with the relations in this same order.)
            def _rank(g):
                try:
                    lt = sympy.LT(g, *syms, order='lex')
                except Exception:
                    return (len(el), 1)
                vs_ = [el.index(str(x)) for x in lt.free_symbols if str(x) in el]
                return (min(vs_) if vs_ else len(el), 0 if len(vs_) >= 2 else 1)
            perm = sorted(range(len(Gs)), key=lambda i_: _rank(Gs[i_]))
            Gs = [Gs[i_] for i_ in perm]
            G = [G[i_] for i_ in perm]
        if Ns == 0:
            q, r = [sympy.Integer(0)] * len(Gs), sympy.Integer(0)
        elif not Gs:
            q, r = [], Ns
        else:
            q, r = sympy.reduced(Ns, Gs, *syms, order=order)
        if r != 0 and not bound_mode:
            return {'ok': False, 'why': 'remainder non-zero', 'time': time.time() - t0}
        qz = [from_sympy(x, fvs) for x in q]
        rz = from_sympy(r, fvs) if r != 0 else z3.RealVal(0)
        if rel_rational:
            if bound_mode:
                return {'ok': False, 'why': 'rational relations in bound mode', 'time': time.time() - t0}
            # use the (polynomial) numerators as relation terms in the identity; soundness of "numerator == 0" is the
            # caller's side query (all divisors of the relations are non-zero under the hypotheses)
            G = [from_sympy(gs_, fvs) for gs_ in Gs]
            if den is None:
                den = sympy.Integer(1)
        s = z3.Solver()
        s.set('timeout', int(1000 * max(1, timeout_s - (time.time() - t0))))
        if den is None:
            ident = N - z3.Sum([a * g for a, g in zip(qz, G)] + [rz]) if G else N - rz
            s.add(ident != 0)
        else:
            dz = from_sympy(den, fvs)
            # wherever no syntactic divisor of N vanishes, N denotes the rational function sympy manipulated
            for b in divisors(N):
                s.add(b != 0)
            s.add(dz != 0)
            s.add(N * dz != (z3.Sum([a * g for a, g in zip(qz, G)]) if G else z3.RealVal(0)))
        res = str(s.check())
        out = {'ok': res == 'unsat', 'why': 'identity check: ' + res, 'remainder': str(r), 'ncof': len(qz),
               'names': {k: str(v) for k, v in fvs.items()}, 'time': time.time() - t0}
        if den is not None:
            out['den'] = str(den)
        return out
    except TimeoutError:
        return {'ok': False, 'why': 'timeout', 'time': time.time() - t0}
    finally:
        signal.alarm(0)


def certificate(nexpr_smt2, rel_smt2s, gens_order, timeout_s):
    """Untrusted cofactor search with sympy.  nexpr_smt2: smt2 text declaring vars and asserting (= N 0) form is
    not used; instead we receive python-serialised polynomials as strings.  See harness.certify."""
    raise NotImplementedError


def poly_reduce(n_str, rel_strs, gens, timeout_s, order='grevlex'):
    """sympy multivariate division of N by relations; returns (quotients as strings, remainder string)."""
    import signal
    import sympy

    def _alarm(*a):
        raise TimeoutError()
    signal.signal(signal.SIGALRM, _alarm)
    signal.alarm(max(1, int(timeout_s)))
    try:
        syms = [sympy.Symbol(g) for g in gens]
        loc = {g: s for g, s in zip(gens, syms)}
        N = sympy.expand(sympy.sympify(n_str, locals=loc))
        G = [sympy.expand(sympy.sympify(r, locals=loc)) for r in rel_strs]
        if N == 0:
            return ['0'] * len(G), '0'
        q, r = sympy.reduced(N, G, *syms, order=order)
        if r != 0 and order == 'grevlex':
            # try a Groebner basis of the relations (still untrusted: z3 checks the final identity)
            gb = sympy.groebner(G, *syms, order='grevlex')
            q2, r2 = sympy.reduced(N, list(gb.exprs), *syms, order='grevlex')
            if r2 == 0:
                # express through gb elements: return gb as the relation set
                return {'gb': [str(e) for e in gb.exprs], 'q': [str(x) for x in q2]}, '0'
        return [str(x) for x in q], str(r)
    except TimeoutError:
        return None, 'timeout'
    finally:
        signal.alarm(0)
