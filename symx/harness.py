"""Harness runtime: obligations -> solver pool -> verdicts -> replay -> evidence / VIOLATION / KNOWN-FINDING."""
import concurrent.futures as cf
import hashlib
import json
import multiprocessing as mp
import os
import sys
import time
import traceback

import z3

from . import solve as _solve
from .axioms import tf_axioms
from .terms import evalf, free_vars, from_sympy, to_sympy, safe_name, divisors

VERIF = os.path.dirname(os.path.dirname(os.path.abspath(__file__)))
EXIT_OK, EXIT_VIOLATION, EXIT_HARNESS_ERROR = 0, 1, 3


def _smt2(hyps, neg):
    s = z3.Solver()
    for h in hyps:
        s.add(h)
    s.add(neg)
    return s.to_smt2()


class Ob:
    """one proof obligation:  hyps => goal   (query: hyps ∧ ¬goal must be unsat)"""
    __slots__ = ('name', 'hyps', 'goal', 'neg', 'neg_margin', 'kind', 'timeout', 'replay', 'fut', 'fut2', 'res',
                 'status', 'detail', 'key', 'group', 'sample', 'tfvar', 't_submit', 'deps')

    def __init__(self, name, hyps, goal, kind='prove', timeout=20, replay=None, neg_margin=None, key=None,
                 group=None, tfvar=None):
        self.name, self.hyps, self.goal, self.kind = name, hyps, goal, kind
        self.neg = z3.Not(goal) if goal is not None else None
        self.neg_margin = neg_margin
        self.timeout, self.replay = timeout, replay
        self.fut = self.fut2 = self.res = None
        self.status, self.detail = 'pending', ''
        self.key = key or name
        self.group = group
        self.tfvar = tfvar
        self.deps = []


class ReplayDone(BaseException):
    """raised in replay mode once the recorded obligation / finding has been re-examined on the real code"""


class Harness:
    def __init__(self, pid, tier, seed=0, workers=None):
        self.pid, self.tier, self.seed = pid, tier, seed
        self.t0 = time.time()
        self.obs = []
        self.notes = []
        self.assumptions = []
        self.bounds = []
        self.stubs = set()
        self.funcs = set()
        self.aten_ops = set()
        self.paths = 0
        self.decisions = 0
        self.engine_errors = []       # Unsupported / bound exhausted: not discharged
        self.violations = []          # (key, message, replay_path)
        self.known_hits = []
        self.harness_errors = []
        self.vacuous_prefixes = []
        self.selftests = 0
        self.solver_time = 0.0
        self.extra = {}
        workers = workers or int(os.environ.get('VERIF_WORKERS', '16'))
        ctx = mp.get_context('spawn')
        self.pool = cf.ProcessPoolExecutor(max_workers=workers, mp_context=ctx, initializer=_solve.worker_init)
        kf = os.path.join(VERIF, 'known_findings.json')
        self.known = json.load(open(kf)) if os.path.exists(kf) else []
        self.quick = (tier == 'quick')
        # replay mode (bin/vcheck <ID> --replay file): the harness runs as usual, no query is sent to the solver, and the replay closure
        # of the recorded obligation is executed on the recorded model when that obligation is reached
        self.replay_target = None
        self.replay_outcome = None
        # per-obligation time cap (seconds): the thorough tier is sized by total wall time, not by letting every hard obligation burn
        # its own budget; VERIF_CAP overrides
        self.cap = float(os.environ.get('VERIF_CAP', '0') or 0) or (45 if self.quick else 50)

    # ------------------------------------------------------------------ bookkeeping from engine runs
    def absorb(self, ctx):
        self.funcs |= ctx.funcs
        self.aten_ops |= set(ctx.ops)
        self.stubs |= ctx.stubs
        from .engine import INF_NOTES
        self.stubs |= INF_NOTES
        self.paths += 1
        self.decisions += len(ctx.trace)
        self.solver_time += ctx.solver_time

    def engine_error(self, case, err):
        self.engine_errors.append('%s: %s: %s' % (case, type(err).__name__, str(err)[:200]))

    def hyps_of(self, ctx, extra=(), taylor=True, level=2, pairs=True):
        return list(extra) + list(ctx.assume) + list(ctx.axioms) + list(ctx.pc) + tf_axioms(ctx, taylor=taylor, level=level, pairs=pairs)

    # ------------------------------------------------------------------ obligations
    def prove(self, name, hyps, goal, timeout=None, replay=None, neg_margin=None, key=None, group=None,
              tfvar=None, strategies=('default', 'old', 'nlsat'), depends=(), linear=False):
        """depends: lemma obligations whose statements were added to hyps; this obligation only counts as discharged
        if every one of them was itself discharged in this run"""
        timeout = timeout or (15 if self.quick else 60)
        timeout = min(timeout, self.cap)
        if self.replay_target is not None:
            return self._replay_stub(name, replay, key)
        if linear:
            # decide on the linear abstraction (every non-linear subterm an opaque variable): unsat there is unsat here
            from .terms import linear_abstract
            table, cache = {}, {}
            hyps = [linear_abstract(x, table, cache) for x in hyps]
            goal = linear_abstract(goal, table, cache)
            if isinstance(neg_margin, (list, tuple)):
                neg_margin = [linear_abstract(x, table, cache) for x in neg_margin]
            elif neg_margin is not None:
                neg_margin = linear_abstract(neg_margin, table, cache)
            self._keep = getattr(self, '_keep', []) + [table]
        ob = Ob(name, hyps, goal, 'prove', timeout, replay, neg_margin, key, group, tfvar)
        ob.deps = list(depends)
        goal_s = z3.simplify(goal)
        if z3.is_true(goal_s):
            ob.status, ob.detail = 'unsat', 'syntactic'
            ob.res = {'result': 'unsat', 'strategy': 'simplify', 'time': 0.0}
        elif self._concrete_point_refutes(ob, goal):
            pass
        else:
            ob.fut = self.pool.submit(_solve.solve, _smt2(hyps, ob.neg), timeout, True, strategies)
        self.obs.append(ob)
        return ob

    def chain(self, name, hyps, lemmas, **kw):
        """prove the lemmas in order.  A lemma is (name, formula) - proved under hyps + all earlier lemmas - or
        (name, formula, uses) - proved from the named EARLIER lemmas only (a focused query: the solver sees a handful of
        relevant facts instead of the whole axiom set; sound because every one of them is itself proved in this chain).
        Returns (hyps + all lemmas, lemma obligations, table name -> (formula, obligation)).  Obligations proved from lemma
        formulas must pass depends=<those lemma obligations>."""
        hy, obs, tab = list(hyps), [], {}
        kw.setdefault('strategies', ('default', 'nlsat'))
        for ent in lemmas:
            nm, f = ent[0], ent[1]
            if len(ent) > 2 and ent[2] is not None:
                ob = self.prove('%s/lemma:%s' % (name, nm), [tab[u][0] for u in ent[2]], f, depends=[tab[u][1] for u in ent[2]], **kw)
            else:
                ob = self.prove('%s/lemma:%s' % (name, nm), hy, f, depends=list(obs), **kw)
            obs.append(ob)
            tab[nm] = (f, ob)
            hy = hy + [f]
        return hy, obs, tab

    def focused(self, name, tab, uses, goal, **kw):
        """obligation proved from the named lemmas of a chain only"""
        kw.setdefault('strategies', ('default', 'nlsat'))
        return self.prove(name, [tab[u][0] for u in uses], goal, depends=[tab[u][1] for u in uses], **kw)

    def same(self, name, hyps, l, r, ctx, replay=None, key=None, timeout=None):
        """two terms that the real code must make equal (differential obligations between configurations of one operator).
        Identical terms are discharged syntactically; terms that already differ numerically at the run's own concrete point
        are handed to the replay at that point (a confirmed difference is a violation, no solver needed to find it);
        everything else is an ordinary equality obligation."""
        from .terms import evalf
        if self.replay_target is not None:
            return self._replay_stub(name, replay, key)
        if z3.is_true(z3.simplify(l == r)):
            return self.prove(name, [], z3.BoolVal(True), key=key)
        try:
            cache = {}
            dv = abs(evalf(l, ctx.env, ctx.tfvar, cache) - evalf(r, ctx.env, ctx.tfvar, cache))
        except Exception:
            dv = 0.0
        env = ctx.env
        if replay is not None and dv > 1e-9:
            ob = Ob(name, [], z3.BoolVal(False), 'prove', 1, replay, None, key, None)
            ob.res = {'result': 'sat', 'strategy': 'concrete point of the run', 'time': 0.0, 'model': dict(env)}
            ob.status = 'sat'
            self._handle_sat(ob)
            self.obs.append(ob)
            if ob.status == 'violation':
                return ob
            self.obs.pop()
        d = l - r
        return self.prove(name, hyps, l == r, replay=replay, key=key, timeout=timeout,
                          neg_margin=z3.Or(d > z3.RealVal('1/1000'), d < -z3.RealVal('1/1000')))

    def _concrete_point_refutes(self, ob, goal):
        """fast path for counterexamples: an equality goal whose two sides already differ numerically at the concrete point the
        current path was executed on is handed to the replay at that point; a confirmed difference is a violation without waiting
        for the solver.  (Never used to discharge anything.)  One attempt per finding key and path."""
        ctx = getattr(self, 'cur_ctx', None)
        if ctx is None or ob.replay is None or not z3.is_eq(goal) or ctx.deviated:
            return False
        l, r = goal.children()
        if not (z3.is_real(l) or z3.is_int(l)):
            return False
        tried = self.__dict__.setdefault('_cp_tried', set())
        if (ob.key, id(ctx)) in tried:
            return False
        from .terms import evalf
        try:
            cache = self.__dict__.setdefault('_cp_cache', {}).setdefault(id(ctx), {})
            a, b = evalf(l, ctx.env, ctx.tfvar, cache), evalf(r, ctx.env, ctx.tfvar, cache)
        except Exception:
            return False
        if not (a == a and b == b) or abs(a - b) <= 1e-6 * (1 + abs(b)):
            return False
        tried.add((ob.key, id(ctx)))
        ob.res = {'result': 'sat', 'strategy': 'concrete point of the run', 'time': 0.0, 'model': dict(ctx.env)}
        ob.status = 'sat'
        nm, ob.neg_margin = ob.neg_margin, None
        self._handle_sat(ob)
        ob.neg_margin = nm
        if ob.status == 'violation':
            return True
        ob.status, ob.res, ob.detail = 'pending', None, ''
        return False

    def path_infeasible(self, name, hyps, timeout=6):
        """synchronous feasibility query for a path the explorer could not prune within its own budget: True iff the hypotheses are
        unsatisfiable (the path does not exist; the harness then states no obligations on it).  Recorded as a note."""
        if self.replay_target is not None:
            return False
        r = _solve.solve(_smt2(hyps, z3.BoolVal(True)), timeout, False, ('default',))
        self.solver_time += r.get('time', 0)
        if r['result'] == 'unsat':
            self.notes.append('%s: infeasible path (hypotheses unsatisfiable), no obligations stated' % name)
            return True
        return False

    def _replay_stub(self, name, replay, key):
        ob = Ob(name, [], z3.BoolVal(True), 'prove', 1, replay, None, key, None)
        ob.status = 'skipped'
        tgt = self.replay_target
        if replay is not None and name == tgt.get('obligation'):
            try:
                ok, detail = replay(tgt.get('model') or {})
            except Exception as e:
                ok, detail = False, 'replay raised %s: %s' % (type(e).__name__, str(e)[:200])
            self.replay_outcome = (bool(ok), '%s: %s' % (name, detail))
            raise ReplayDone()
        return ob

    def prove_eqs(self, name, hyps, lhs, rhs, **kw):
        """componentwise equality obligations; neg_margin asks for a witness with visible margin"""
        obs = []
        for i, (l, r) in enumerate(zip(lhs, rhs)):
            d = l - r
            nm = z3.Or(d > z3.RealVal('1/1000'), d < -z3.RealVal('1/1000'))
            obs.append(self.prove('%s[%d]' % (name, i), hyps, l == r, neg_margin=nm, **kw))
        return obs

    def reach(self, name, hyps, timeout=None, extra=None):
        """vacuity guard: hyps must be satisfiable"""
        if self.replay_target is not None:
            return self._replay_stub(name, None, None)
        ob = Ob(name, hyps, None, 'reach', timeout or 10)
        ob.fut = self.pool.submit(_solve.solve, _smt2(hyps, extra if extra is not None else z3.BoolVal(True)),
                                  ob.timeout, False)
        self.obs.append(ob)
        return ob

    def twin(self, name, hyps, false_goal, timeout=None):
        if self.replay_target is not None:
            return self._replay_stub(name, None, None)
        """reachability twin: a deliberately false goal must be refuted (query sat)"""
        ob = Ob(name, hyps, false_goal, 'twin', timeout or 10)
        ob.fut = self.pool.submit(_solve.solve, _smt2(hyps, ob.neg), ob.timeout, False)
        self.obs.append(ob)
        return ob

    @staticmethod
    def _defs_smt2(exprs):
        s = z3.Solver()
        for i, e in enumerate(exprs):
            s.add(z3.Real('__E%d' % i) == e)
        return s.to_smt2()

    def certify(self, name, lhs, rhs, relations, timeout=None, key=None, group=None, replay=None, hyps=(), depends=(), elim=(), side_hyps=None):
        """Equality modulo polynomial side relations (each relation term == 0), by untrusted sympy cofactors whose
        polynomial identity is then checked by z3 (in the worker, on the original terms) with no hypotheses.
        Non-polynomial goals and goals without certificate fall back to a direct solver query."""
        if self.replay_target is not None:
            return self._replay_stub(name, replay, key)
        ob = Ob(name, list(hyps) + [r == 0 for r in relations], lhs == rhs, 'cert', min(timeout or (20 if self.quick else 60), 2 * self.cap), replay, None, key, group)
        ob.deps = list(depends)
        ob.sample = list(relations)
        d = lhs - rhs
        ob.neg_margin = z3.Or(d > z3.RealVal('1/1000'), d < -z3.RealVal('1/1000'))
        if z3.is_true(z3.simplify(lhs == rhs)):
            ob.status, ob.detail = 'unsat', 'syntactic'
            ob.res = {'result': 'unsat', 'strategy': 'simplify', 'time': 0.0}
        else:
            ob.fut = self.pool.submit(_solve.cert_worker, self._defs_smt2([z3.simplify(d)] + list(relations)), len(relations),
                                      [str(v) for v in elim], 'lex' if elim else 'grevlex', ob.timeout)
        ob.group = side_hyps       # optional lighter hypothesis set for the "denominators are non-zero" side query
        self.obs.append(ob)
        return ob

    def certify_bound(self, name, expr, relations, hyps, lo=None, hi=None, elim=(), timeout=None, key=None, replay=None):
        """lo <= expr <= hi under hyps, where expr is first reduced modulo polynomial relations (each == 0, and
        implied by hyps) by untrusted sympy division with the variables in `elim` eliminated first; z3 checks the
        free identity expr == sum q_i g_i + rem and then the bound on rem."""
        if self.replay_target is not None:
            return self._replay_stub(name, replay, key)
        goal = z3.And(*([expr >= lo] if lo is not None else []) + ([expr <= hi] if hi is not None else []))
        ob = Ob(name, list(hyps), goal, 'certb', timeout or (20 if self.quick else 60), replay, None, key, None)
        ob.detail = (expr, relations, lo, hi)
        ob.fut = self.pool.submit(_solve.cert_worker, self._defs_smt2([z3.simplify(expr)] + list(relations)), len(relations),
                                  [str(v) for v in elim], 'lex', ob.timeout, True)
        self.obs.append(ob)
        return ob

    def _finish_cert(self, ob):
        """phase 1: take the certificate worker's answer; without certificate submit a direct refutation query"""
        try:
            r = ob.fut.result(timeout=7200)
        except Exception as e:
            r = {'ok': False, 'why': 'worker failed: %s' % str(e)[:80], 'time': ob.timeout}
        self.solver_time += r.get('time', 0)
        if r['ok'] and 'den' not in r:
            ob.res = {'result': 'unsat', 'strategy': 'certificate', 'time': r['time']}
            ob.status = 'unsat'
            ob.detail = 'certificate: %d cofactors (sympy, untrusted) - identity checked by z3 on the original terms' % r.get('ncof', 0)
            return
        if r['ok']:
            # rational goal: N*den == sum q_i g_i was checked under den != 0; remains: hyps => den != 0
            import sympy
            fv = {}
            for e in [ob.goal] + list(ob.hyps):
                free_vars(e, fv, set())
            fvs = {safe_name(k): v for k, v in fv.items()}
            try:
                dz = from_sympy(sympy.sympify(r['den'], locals={k: sympy.Symbol(k) for k in fvs}), fvs)
                ob.detail = 'rational certificate (%d cofactors, identity checked by z3 under den != 0); denominator %s proved non-zero from the hypotheses' % (r.get('ncof', 0), r['den'][:80])
                lhs, rhs = ob.goal.children()
                divs = divisors(lhs) + divisors(rhs)
                for rel_ in (ob.sample or []):
                    divs += divisors(rel_)
                ob.fut2 = self.pool.submit(_solve.solve, _smt2(ob.group if ob.group is not None else ob.hyps, z3.Or([dz == 0] + [b == 0 for b in divs])),
                                           min(20 if self.quick else 60, ob.timeout), False)
                ob.res = {'result': 'pending', 'strategy': 'certificate', 'time': r['time']}
                return
            except Exception:
                pass
        ob.detail = 'no certificate (%s); direct query' % r.get('why')
        ob.fut2 = self.pool.submit(_solve.solve, _smt2(ob.hyps, ob.neg), min(20 if self.quick else 60, ob.timeout), True)

    def _finish_cert2(self, ob):
        try:
            res = ob.fut2.result(timeout=7200)
        except Exception as e:
            res = {'result': 'unknown', 'strategy': None, 'time': ob.timeout}
        self.solver_time += res.get('time', 0)
        if ob.res and ob.res.get('strategy') == 'certificate' and ob.res.get('result') == 'pending':
            # the side query "den == 0" must be unsat
            ok = res['result'] == 'unsat'
            ob.res = {'result': 'unsat' if ok else 'unknown', 'strategy': 'certificate', 'time': ob.res['time'] + res.get('time', 0)}
            ob.status = 'unsat' if ok else 'unknown'
            return
        ob.res = res
        ob.status = res['result']

    def _finish_certb(self, ob):
        expr, relations, lo, hi = ob.detail
        ob.detail = ''
        try:
            r = ob.fut.result(timeout=7200)
        except Exception as e:
            r = {'ok': False, 'why': 'worker failed: %s' % str(e)[:80], 'time': ob.timeout}
        self.solver_time += r.get('time', 0)
        target = expr
        if r['ok']:
            import sympy
            fv = {}
            for e in [expr] + list(relations):
                free_vars(e, fv, set())
            fvs = {safe_name(k): v for k, v in fv.items()}
            target = from_sympy(sympy.sympify(r['remainder'], locals={k: sympy.Symbol(k) for k in fvs}), fvs) if r['remainder'] != '0' else z3.RealVal(0)
        goal = z3.And(*([target >= lo] if lo is not None else []) + ([target <= hi] if hi is not None else []))
        ob.detail = ('reduced modulo relations to %s' % r['remainder'][:160]) if r['ok'] else '(no reduction: %s)' % r.get('why')
        ob.fut2 = self.pool.submit(_solve.solve, _smt2(ob.hyps, z3.Not(goal)), ob.timeout, True)

    def collect(self):
        deadline_slack = 30
        # phase 1: certificate workers (their fall-back queries are submitted to the pool, not run here)
        for ob in self.obs:
            if ob.status == 'pending' and ob.kind == 'cert':
                self._finish_cert(ob)
            elif ob.status == 'pending' and ob.kind == 'certb':
                self._finish_certb(ob)
        sats = []
        for ob in self.obs:
            if ob.status != 'pending':
                continue
            if ob.kind in ('cert', 'certb'):
                self._finish_cert2(ob)
                if ob.status == 'sat':
                    sats.append(ob)
                continue
            try:
                ob.res = ob.fut.result(timeout=7200)
            except Exception as e:
                ob.res = {'result': 'unknown', 'strategy': None, 'time': ob.timeout, 'tried': [('pool', str(e)[:80], 0)]}
            r = ob.res['result']
            self.solver_time += ob.res.get('time', 0)
            if ob.kind == 'reach':
                ob.status = 'ok' if r == 'sat' else ('vacuous' if r == 'unsat' else 'unknown')
                if r == 'unsat':
                    # the path's hypotheses are unsatisfiable: an infeasible path that the explorer could not prune within its
                    # budget.  Its obligations are vacuous and must not count as discharged.
                    prefix = ob.name.rsplit('/', 1)[0] + '/'
                    self.vacuous_prefixes.append(prefix)
                continue
            if ob.kind == 'twin':
                ob.status = 'ok' if r == 'sat' else ('vacuous' if r == 'unsat' else 'unknown')
                if r == 'unsat':
                    self.harness_errors.append('reachability twin proved a false goal: %s' % ob.name)
                continue
            ob.status = r
            if r == 'sat':
                sats.append(ob)
        # candidate counterexamples: the margin queries of all of them run in the pool, then each is replayed on the real code
        for ob in sats:
            ob.fut2 = None
            if ob.neg_margin is not None and ob.kind != 'cert':
                ms = ob.neg_margin if isinstance(ob.neg_margin, (list, tuple)) else [ob.neg_margin]
                ob.fut2 = [self.pool.submit(_solve.solve, _smt2(ob.hyps, nm_), min(ob.timeout, 5), True, ('default',)) for nm_ in ms]
        for ob in sats:
            self._handle_sat(ob)

    def _apply_vacuous(self):
        for ob in self.obs:
            if ob.kind in ('prove', 'cert', 'certb') and ob.status == 'unsat' and any(ob.name.startswith(p) for p in self.vacuous_prefixes):
                ob.status = 'vacuous-path'
                ob.detail = 'path hypotheses unsatisfiable (infeasible path): not counted'
        guards = [o for o in self.obs if o.kind == 'reach']
        if guards and all(g.status == 'vacuous' for g in guards):
            self.harness_errors.append('every reachability guard failed: the harness assumptions are contradictory')

    def _apply_deps(self):
        for ob in self.obs:
            if ob.deps and ob.status == 'unsat':
                bad = [d.name for d in ob.deps if d.status != 'unsat']
                if bad:
                    ob.status = 'unknown'
                    ob.detail = 'conditional on lemma(s) not discharged in this run: %s' % bad[:3]

    def _handle_sat(self, ob):
        """candidate counterexample: replay on the real code; only reproducing ones are violations"""
        model = ob.res.get('model') or {}
        if ob.neg_margin is not None and ob.kind != 'cert':
            # prefer a witness with a visible margin (graded: the first satisfiable of a list of decreasing margins)
            for f2 in (getattr(ob, 'fut2', None) or []):
                try:
                    r2 = f2.result(timeout=600)
                except Exception:
                    continue
                self.solver_time += r2.get('time', 0)
                if r2['result'] == 'sat' and r2.get('model'):
                    model = r2['model']
                    break
        if ob.replay is None:
            ob.status = 'sat-unreplayed'
            ob.detail = 'candidate counterexample, no replay available -> inconclusive'
            return
        try:
            ok, detail = ob.replay(model)
        except Exception as e:
            ok, detail = False, 'replay raised %s: %s' % (type(e).__name__, str(e)[:200])
        if ok:
            ob.status = 'violation'
            ob.detail = detail
            self.violation(ob.key, '%s: %s' % (ob.name, detail), {'obligation': ob.name, 'model': model, 'detail': detail})
        else:
            ob.status = 'sat-spurious'
            ob.detail = 'candidate did not reproduce on the real code: %s' % str(detail)[:300]

    # ------------------------------------------------------------------ violations / known findings
    def violation(self, key, message, replay_data):
        if self.replay_target is not None:
            # findings raised directly by a harness (an exception of the real code on some path): reproduced iff reached again
            if key == self.replay_target.get('key'):
                self.replay_outcome = (True, message)
                raise ReplayDone()
            return
        for k in self.known:
            if k.get('property') == self.pid and k.get('status', 'open') == 'open' and k['key'] == key:
                if key not in [h[0] for h in self.known_hits]:
                    self.known_hits.append((key, k.get('what', message)))
                return
        if key in [v[0] for v in self.violations]:
            return
        d = os.path.join(os.environ.get('VERIF_REPLAY_DIR') or os.path.join(VERIF, 'replays'), self.pid)
        os.makedirs(d, exist_ok=True)
        h = hashlib.sha1(key.encode()).hexdigest()[:10]
        path = os.path.join(d, '%s.json' % h)
        with open(path, 'w') as f:
            json.dump({'property': self.pid, 'key': key, 'message': message, 'data': replay_data}, f, indent=1, default=str)
        self.violations.append((key, message, path))

    def kill_pool(self):
        try:
            procs = list(getattr(self.pool, '_processes', {}).values())
            self.pool.shutdown(wait=False, cancel_futures=True)
            for p in procs:
                try:
                    p.kill()
                except Exception:
                    pass
        except Exception:
            pass

    # ------------------------------------------------------------------ end
    def finish(self, level='other', explanation='', samples=None):
        if self.replay_target is not None:
            self.kill_pool()
            return 0
        self.collect()
        self._apply_deps()
        self._apply_vacuous()
        self.kill_pool()
        proves = [o for o in self.obs if o.kind in ('prove', 'cert', 'certb')]
        guards = [o for o in self.obs if o.kind in ('reach', 'twin')]
        discharged = [o for o in proves if o.status == 'unsat']
        inconclusive = [o for o in proves if o.status in ('unknown', 'sat-spurious', 'sat-unreplayed', 'pending', 'vacuous-path')]
        distinct = len(set(hashlib.sha1((o.goal.sexpr() if o.goal is not None else o.name).encode()).hexdigest()
                           for o in proves if not (o.res and o.res.get('strategy') == 'simplify')))
        smp = samples or []
        for o in proves[:3] + [o for o in proves if o.status != 'unsat'][:5]:
            smp.append({'obligation': o.name, 'verdict': o.status, 'strategy': (o.res or {}).get('strategy'),
                        'time_s': round((o.res or {}).get('time', 0), 3),
                        'goal': (o.goal.sexpr()[:400] if o.goal is not None else None), 'detail': str(o.detail)[:300]})
        cov = {
            'explanation': explanation,
            'obligations': len(proves), 'discharged': len(discharged), 'inconclusive': len(inconclusive),
            'inconclusive_names': [o.name + ':' + o.status for o in inconclusive][:60],
            'vacuity_guards': len(guards), 'vacuity_guards_ok': len([g for g in guards if g.status == 'ok']),
            'evaluations': max(1, len(proves)), 'distinct_nontrivial': distinct,
            'rule': 'one evaluation = one solver query (negated obligation) generated from an execution path of the '
                    'real code under the engine; distinct = distinct goal formulas by hash; non-trivial = not closed '
                    'by syntactic simplification alone',
            'samples': smp or [{'note': 'no obligations'}],
            'paths': self.paths, 'decisions': self.decisions,
            'functions_encoded': sorted(self.funcs), 'aten_ops': sorted(self.aten_ops),
            'stubs': sorted(self.stubs), 'bounds': self.bounds, 'engine_not_encoded': self.engine_errors[:40],
            'solver_time_s': round(self.solver_time, 2), 'selftest_points': self.selftests,
            'known_findings_hit': [k for k, _ in self.known_hits], 'notes': self.notes[:40],
            'checker_cmd': 'bin/vcheck %s --tier %s' % (self.pid, self.tier),
            'trusted_base': ['z3 5.1.0 (python API)', 'z3 4.8.12 (binary)', 'torch ATen decomposition', 'symx operator handlers',
                             'symx axiom library', 'harness oracles'],
        }
        cov.update(self.extra)
        ev = {'property_id': self.pid, 'tier': self.tier, 'seed': self.seed, 'level': level, 'coverage': cov,
              'assumptions': self.assumptions, 'wall_s': round(time.time() - self.t0, 2),
              'violations': len(self.violations)}
        evdir = os.environ.get('VERIF_EVIDENCE_DIR') or os.path.join(VERIF, 'evidence')      # (redirected by the seed-matrix tool only)
        os.makedirs(evdir, exist_ok=True)
        with open(os.path.join(evdir, '%s.json' % self.pid), 'w') as f:
            json.dump(ev, f, indent=1, default=str)
        print('[%s/%s] obligations=%d discharged=%d inconclusive=%d guards=%d/%d paths=%d not_encoded=%d wall=%.1fs solver=%.1fs'
              % (self.pid, self.tier, len(proves), len(discharged), len(inconclusive),
                 len([g for g in guards if g.status == 'ok']), len(guards), self.paths, len(self.engine_errors),
                 time.time() - self.t0, self.solver_time))
        slow = sorted(proves, key=lambda o: -((o.res or {}).get('time', 0)))[:5]
        print('  slowest: ' + ', '.join('%s=%.1fs' % (o.name, (o.res or {}).get('time', 0)) for o in slow))
        for o in inconclusive[:20]:
            print('  inconclusive: %s [%s] %s' % (o.name, o.status, str(o.detail)[:160]))
        for e in self.engine_errors[:10]:
            print('  not encoded: %s' % e)
        for k, what in self.known_hits:
            print('KNOWN-FINDING: property=%s %s' % (self.pid, what))
        if self.harness_errors:
            for e in self.harness_errors:
                print('HARNESS-ERROR: %s' % e)
            return EXIT_HARNESS_ERROR
        if self.violations:
            for key, msg, path in self.violations:
                print('VIOLATION property=%s replay=%s' % (self.pid, path))
                print('  %s' % msg[:400])
            return EXIT_VIOLATION
        return EXIT_OK


def selftest_terms(H, ctx, terms, concrete, env, tol=1e-8, what=''):
    """differential self-test of the translator: numeric evaluation of the symbolic terms at the concrete input
    point must match what real torch computed."""
    cache = {}
    for i, (t, c) in enumerate(zip(terms, concrete)):
        v = evalf(t, env, ctx.tfvar, cache)
        if isinstance(v, bool):
            v = float(v)
        if not (abs(v - c) <= tol * (1 + abs(c))):
            H.harness_errors.append('translator self-test mismatch %s[%d]: engine %r vs torch %r' % (what, i, v, c))
            return False
    H.selftests += 1
    return True
