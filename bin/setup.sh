#!/bin/bash
# Idempotent, offline: overlay venv on top of /venv with z3-solver, crosshair-tool, jsonschema.
set -e
V=/verif/.venv
if [ ! -x "$V/bin/python" ] || ! "$V/bin/python" -c "import z3, crosshair, torch" >/dev/null 2>&1; then
  (
    flock 9
    if [ ! -x "$V/bin/python" ] || ! "$V/bin/python" -c "import z3, crosshair, torch" >/dev/null 2>&1; then
      rm -rf "$V"
      /venv/bin/python -m venv "$V"
      echo "import site; site.addsitedir('/venv/lib/python3.12/site-packages')" > "$V/lib/python3.12/site-packages/_venv.pth"
      PIP_NO_INDEX=1 "$V/bin/pip" install -q --no-index --find-links /opt/veriftools/wheels z3-solver crosshair-tool jsonschema >/dev/null
    fi
  ) 9>/verif/.venv.lock
fi
