"""C11 - matrix and Euler conversions are exact inverses of matrix() / each other."""
import torch
import z3

import pypose as pp
from symx import terms as T
from symx.engine import det_terms, rat
from .common import *

EXPLAIN = ("mat2SO3/mat2SE3/mat2Sim3/mat2RxSO3/from_matrix run under symx on the documented matrix of a fully symbolic valid group element "
           "(textbook quaternion->rotation terms; layouts 3x3/3x4/4x4), with the four branch masks of the quaternion extraction split "
           "into paths (every region incl. angle pi and axis rotations is some path, reached by decision): the recovered element has "
           "the same matrix, a unit quaternion and the same scale (rational certificates modulo |q|=1 and the sqrt/cube-root "
           "definitions), no division by zero on any region (poison tracking), valid input never raises with check=True, and inputs "
           "violating orthogonality / determinant beyond the tolerances must raise. euler2SO3 equals Rz(yaw)Ry(pitch)Rx(roll) as a "
           "polynomial identity in half-angle sines/cosines.")


def matrix_input(m, g, layout, seed, name='x'):
    """tensor holding the documented matrix of a symbolic valid element of g, in the requested layout.  The ROTATION entries
    are opaque symbols r_ij tied to the quaternion by definitional equalities r_ij == R_ij(q) (textbook formula): branch
    conditions and square-root arguments of the extraction are then linear in r_ij."""
    X, xs = sym_group(m, g, name, seed)
    t, q, s = parts(g, xs)
    Rq = T.quat_rot(q)
    rv = [[z3.Real('r%d%d' % (i, j)) for j in range(3)] for i in range(3)]
    links = [rv[i][j] - Rq[i][j] for i in range(3) for j in range(3)]
    m.ctx.assume += [l == 0 for l in links]
    # consequences of orthogonality that keep the side queries linear: entries of a rotation lie in [-1, 1], trace in [-1, 3]
    m.ctx.assume += [z3.And(rv[i][j] >= -1, rv[i][j] <= 1) for i in range(3) for j in range(3)]
    m.ctx.assume += [rv[0][0] + rv[1][1] + rv[2][2] >= -1]
    from symx.terms import evalf
    for i in range(3):
        for j in range(3):
            m.ctx.env['r%d%d' % (i, j)] = evalf(z3.simplify(Rq[i][j]), m.ctx.env)
    Rm = [[(s * rv[i][j] if s is not None else rv[i][j]) for j in range(3)] for i in range(3)]
    O, I = z3.RealVal(0), z3.RealVal(1)
    tt = t if t is not None else [O, O, O]
    full = [Rm[0] + [tt[0]], Rm[1] + [tt[1]], Rm[2] + [tt[2]], [O, O, O, I]]
    rows, cols = {'3x3': (3, 3), '3x4': (3, 4), '4x4': (4, 4)}[layout]
    terms = [z3.simplify(full[i][j]) for i in range(rows) for j in range(cols)]
    vals = [evalf(e, m.ctx.env) for e in terms]
    Mt = torch.tensor(vals, dtype=DT).view(rows, cols)
    m.set_terms(Mt, terms)
    return Mt, xs, full, rv, links


FN = {'SO3': pp.mat2SO3, 'SE3': pp.mat2SE3, 'Sim3': pp.mat2Sim3, 'RxSO3': pp.mat2RxSO3}


def light_base(ctx, links):
    return [a_ for a_ in ctx.assume if not any(a_.eq(l == 0) for l in links)] + list(ctx.axioms) + list(ctx.pc)


def case_mat2(H, g, layout, check, via_from_matrix=False):
    name = 'C11/mat2%s/%s/check=%s%s' % (g, layout, check, '/from_matrix' if via_from_matrix else '')

    def prog(m):
        Mt, xs, full, rv, links = matrix_input(m, g, layout, 60)
        t, q, s = parts(g, xs)
        if s is not None:
            m.ctx.assume += [s >= z3.RealVal('1/1000'), s <= 1000]
        import pypose.lietensor.convert as conv
        rec = {}
        real = conv.mat2SO3
        if s is not None:
            # assume-guarantee cut at the inner quaternion extraction of the scaled groups: the normalised rotation handed
            # over (rot / cbrt(det)) is recorded and separately proved equal to the rotation r_ij; the extraction itself then
            # runs on a tensor carrying r_ij (its correctness from r_ij is exactly the SO3 case)
            def spy(mat, check=True, rtol=1e-5, atol=1e-5):
                rec['A'] = m.full_terms(mat)
                clean = mat.detach().clone()
                m.set_terms(clean, [rv[i][j] for i in range(3) for j in range(3)])
                return real(clean, check=check, rtol=rtol, atol=atol)
            conv.mat2SO3 = spy
        try:
            if via_from_matrix:
                Y = pp.from_matrix(Mt, GTYPE[g], check=check)
            else:
                Y = getattr(conv, 'mat2' + g)(Mt, check=check)
        finally:
            conv.mat2SO3 = real
        return m.full_terms(Y.tensor()), m.poisons(Y.tensor()), xs, full, m, Y, rv, links, rec.get('A')

    def concrete(model):
        xv = normalize_group(g, tensor_from_env(['x%d' % i for i in range(GDIM[g])], model))
        X = pp.LieTensor(xv, ltype=GTYPE[g])
        M = X.matrix()
        if g in ('SO3',):
            M4 = torch.eye(4, dtype=DT)
            M4[:3, :3] = M
        else:
            M4 = M
        rows, cols = {'3x3': (3, 3), '3x4': (3, 4), '4x4': (4, 4)}[layout]
        return X, M4[:rows, :cols].clone(), M4

    def replay(model):
        X, Min, M4 = concrete(model)
        try:
            Y = pp.from_matrix(Min, GTYPE[g], check=check) if via_from_matrix else FN[g](Min, check=check)
        except Exception as e:
            return True, 'raised %s (%s) on the matrix of a valid element %s' % (type(e).__name__, str(e)[:60], X.tensor().tolist())
        if not torch.isfinite(Y.tensor()).all():
            return True, 'non-finite result %s for the matrix of %s' % (Y.tensor().tolist(), X.tensor().tolist())
        MY = Y.matrix()
        if g == 'SO3':
            ref = M4[:3, :3]
        else:
            ref = M4.clone()
            if layout == '3x3':
                ref[:3, 3] = 0
        e = (MY - ref).abs().max().item() / (1 + ref.abs().max().item())
        tq = parts(g, Y.tensor())
        un = abs(float((tq[1] ** 2).sum()) - 1)
        return (e > 1e-6 or un > 1e-6), 'recovered element has matrix error %.3g (rel), |q|^2-1 = %.3g for %s' % (e, un, X.tensor().tolist())

    def on_raise(ctx, e):
        H.absorb(ctx)
        # valid input must never raise: the raising path has to be infeasible
        H.prove('%s/raising-path%d-infeasible' % (name, H.paths), H.hyps_of(ctx), z3.BoolVal(False), replay=replay,
                key='C11/mat2%s/valid-input-raises' % g, timeout=(30 if H.quick else 120))

    for ctx, (y, py, xs, full, m, Y, rv, links, Acut) in run_paths(H, name, prog, raised=on_raise, track_poison=True, max_paths=24, max_decisions=30,
                                                   ctx_opts={'split_bool_casts': True}):
        selftest(H, ctx, m, [(y, Y.tensor())], name)
        pn = H.paths
        hyp = H.hyps_of(ctx)
        t, q, s = parts(g, xs)
        ty, qy, sy = parts(g, y)
        rels = list(links) + [unit_rel(g, xs)] + [v * v - a for (fn, _), (v, a) in ctx.tf.items() if fn == 'sqrt'] + \
               [v * v * v - a for (fn, _), (v, a) in ctx.tf.items() if fn == 'cbrt']
        elim = [e for row in rv for e in row]
        # light hypotheses for "no division by zero" questions: everything except the polynomial links r_ij == R_ij(q)
        light = [a_ for a_ in ctx.assume if not any(a_.eq(l == 0) for l in links)] + list(ctx.axioms) + list(ctx.pc)
        to = 30 if H.quick else 120
        key = 'C11/mat2%s' % g
        Lc = None
        extra = []
        if s is not None:
            # lemma: the cube root of det(sR) is the scale
            cb = [v for (fn, _), (v, a) in ctx.tf.items() if fn == 'cbrt']
            if cb:
                Lc = H.prove('%s/path%d/lemma:cbrt(det)==scale' % (name, pn), hyp, cb[0] == s, key=key, timeout=to)
                extra = [cb[0] == s]
                rels = rels + [cb[0] - s]
        deps = [Lc] if Lc is not None else []
        hyp2 = hyp + extra
        if Acut is not None:
            Lcut = H.prove('%s/path%d/cut:normalised-rotation==R' % (name, pn), light_base(ctx, links) + extra,
                           z3.And([a == rv[i][j] for a, (i, j) in zip(Acut, [(i, j) for i in range(3) for j in range(3)])]),
                           replay=replay, key=key, timeout=to, depends=deps)
            deps = deps + [Lcut]
        # same rotation: quat_rot(q') == R(q)   (q' = +-q), unit quaternion, same scale / translation
        Ry = T.flat(T.quat_rot(qy))
        Rx = T.flat(T.quat_rot(q))
        for i in range(9):
            H.certify('%s/path%d/rotation[%d]' % (name, pn, i), Ry[i], Rx[i], rels, hyps=hyp2, replay=replay, key=key, timeout=to, depends=deps,
                      elim=elim, side_hyps=light + extra)
        H.certify('%s/path%d/unit' % (name, pn), T.dot(qy, qy), z3.RealVal(1), rels, hyps=hyp2, replay=replay, key=key, timeout=to, depends=deps,
                  elim=elim, side_hyps=light + extra)
        if s is not None:
            H.prove('%s/path%d/scale' % (name, pn), hyp2, sy == s, replay=replay, key=key, timeout=to, depends=deps)
        if t is not None:
            want = t if layout != '3x3' else [z3.RealVal(0)] * 3
            H.prove('%s/path%d/translation' % (name, pn), hyp2, z3.And([a == b for a, b in zip(ty, want)]), replay=replay, key=key, timeout=to)
        ps = [p for p in py if p is not None]
        if ps:
            H.prove('%s/path%d/no-division-by-zero' % (name, pn), light + extra, z3.Not(z3.Or(ps)), replay=replay, key=key + '/finite', timeout=to, depends=deps)
        if pn % 3 == 0:
            H.reach('%s/path%d/reach' % (name, pn), hyp)


def case_reject(H, kind, via=None):
    """inputs that are not rotations beyond the tolerances must raise ValueError with check=True.
    via='from_matrix': through pp.from_matrix with UNEQUAL tolerances (rtol = 1e-2, atol = 1e-6): the documented criterion
    |R R^T - I| <= atol + rtol |I| then allows 1e-6 off the diagonal, so an off-diagonal defect above 2e-5 must still raise"""
    name = 'C11/mat2SO3/rejects/%s%s' % (kind, '' if via is None else '/via-%s(rtol=1e-2,atol=1e-6)' % via)
    call = (lambda M: pp.mat2SO3(M, check=True)) if via is None else (lambda M: pp.from_matrix(M, pp.SO3_type, check=True, rtol=1e-2, atol=1e-6))

    def prog(m):
        M = torch.eye(3, dtype=DT) + 0.01 * torch.randn(3, 3, dtype=DT)
        ms = m.symbolic(M, 'm')
        Mm = T.mat(ms, 3, 3)
        MMt = T.mm(Mm, T.tr(Mm))
        tol = rat(1e-5) * 2
        if kind == 'not-orthogonal':
            d = MMt[0][1]
            m.ctx.assume += [z3.Or(d > tol, d < -tol)]
        else:
            # orthogonal but a reflection: det = -1
            m.ctx.assume += [MMt[i][j] == (1 if i == j else 0) for i in range(3) for j in range(3)]
            m.ctx.det_assume = det_terms(ms, 3) == -1
            m.ctx.assume += [m.ctx.det_assume]
        if via is not None:
            # keep the diagonal of M M^T inside the (wide) relative budget so that only the off-diagonal defect decides
            m.ctx.assume += [z3.And(MMt[i][i] - 1 < rat(1e-3), MMt[i][i] - 1 > -rat(1e-3)) for i in range(3)]
        Y = call(M)
        return ms

    def replay(model):
        M = tensor_from_env(['m%d' % i for i in range(9)], model).view(3, 3)
        try:
            call(M)
        except ValueError:
            return False, 'raises as required'
        return True, 'accepted a matrix that is not a rotation: %s' % M.tolist()
    n = 0

    def on_raise(ctx, e):
        H.absorb(ctx)
    for ctx, ms in run_paths(H, name, prog, raised=on_raise, max_paths=16, ctx_opts={'split_bool_casts': True}):
        n += 1
        # (for the reflection case the determinant fact alone contradicts the accepted determinant test: light hypotheses)
        hy = H.hyps_of(ctx) if kind == 'not-orthogonal' else [ctx.det_assume] + list(ctx.pc)
        H.prove('%s/non-raising-path%d-infeasible' % (name, n), hy, z3.BoolVal(False), replay=replay, key='C11/rejects', timeout=30)
    if n == 0:
        ob = H.prove(name + '/all-paths-raise', [], z3.BoolVal(True), key='C11/rejects')


def case_euler(H):
    name = 'C11/euler2SO3==Rz.Ry.Rx'

    def prog(m):
        e = torch.tensor([0.3, -0.4, 0.9], dtype=DT)
        es = m.symbolic(e, 'e')
        X = pp.euler2SO3(e)
        Mx = X.matrix()
        return m.full_terms(X.tensor()), m.full_terms(Mx), es, m, Mx

    def replay(model):
        e = tensor_from_env(['e0', 'e1', 'e2'], model)
        M = pp.euler2SO3(e).matrix()
        r, p, y = e.tolist()
        import math
        Rz = torch.tensor([[math.cos(y), -math.sin(y), 0], [math.sin(y), math.cos(y), 0], [0, 0, 1]], dtype=DT)
        Ry = torch.tensor([[math.cos(p), 0, math.sin(p)], [0, 1, 0], [-math.sin(p), 0, math.cos(p)]], dtype=DT)
        Rx = torch.tensor([[1, 0, 0], [0, math.cos(r), -math.sin(r)], [0, math.sin(r), math.cos(r)]], dtype=DT)
        err = (M - Rz @ Ry @ Rx).abs().max().item()
        return err > 1e-9, 'euler2SO3(%s).matrix() differs from Rz Ry Rx by %.3g' % (e.tolist(), err)

    for ctx, (q, Mx, es, m, Mt) in run_paths(H, name, prog):
        selftest(H, ctx, m, [(Mx, Mt)], name)
        sc = {}
        rels = []
        for nm, ang in zip(('r', 'p', 'y'), es):
            sh, ch = ctx.tfun('sin', ang / 2), ctx.tfun('cos', ang / 2)
            sc[nm] = (2 * sh * ch, 1 - 2 * sh * sh)          # (sin, cos) of the full angle by the double-angle formulas
            rels.append(sh * sh + ch * ch - 1)
        O, I = z3.RealVal(0), z3.RealVal(1)
        (sr, cr), (sp, cp), (sy, cy) = sc['r'], sc['p'], sc['y']
        Rz = [[cy, -sy, O], [sy, cy, O], [O, O, I]]
        Ry = [[cp, O, sp], [O, I, O], [-sp, O, cp]]
        Rx = [[I, O, O], [O, cr, -sr], [O, sr, cr]]
        ref = T.flat(T.mm(T.mm(Rz, Ry), Rx))
        for i in range(9):
            H.certify('%s[%d]' % (name, i), Mx[i], ref[i], rels, hyps=H.hyps_of(ctx), replay=replay, key='C11/euler2SO3')
        H.certify(name + '/unit', T.dot(q, q), z3.RealVal(1), rels, hyps=H.hyps_of(ctx), replay=replay, key='C11/euler2SO3')


def case_euler_roundtrip(H, g, f32=False):
    """Rz(yaw) Ry(pitch) Rx(roll) of the angles X.euler() returns is the rotation of X whenever |sin(pitch)| < 1 - eps, angles are in
    their principal ranges and finite.  Together with euler2SO3(e) == Rz Ry Rx for ALL e (case_euler) this is the round-trip clause."""
    name = 'C11/%s/Rz.Ry.Rx(X.euler())==R(X)%s' % (g, '/float32' if f32 else '')
    EPS = z3.RealVal('2/10000')
    dt = torch.float32 if f32 else DT

    def prog(m):
        m.ctx.split_where = True          # the gimbal-lock selection is a path split, not an If-term
        X, xs = sym_group(m, g, 'x', 340, dtype=dt)
        e = X.euler()
        return m.full_terms(e), m.poisons(e), xs

    def replay(model):
        xv = normalize_group(g, tensor_from_env(['x%d' % i for i in range(GDIM[g])], model)).to(dt)
        X = pp.LieTensor(xv, ltype=GTYPE[g])
        e = X.euler().double()
        X = pp.LieTensor(xv.double(), ltype=GTYPE[g])
        tolr = 1e-9 if not f32 else 1e-4
        if not torch.isfinite(e).all():
            return True, 'euler() returned non-finite angles %s at X=%s' % (e.tolist(), xv.tolist())
        import math
        R = X.rotation().matrix()
        if abs(R[2, 0].item()) >= 1 - 2e-4:
            return False, 'gimbal-lock region (outside the clause)'
        r, p_, y = e.tolist()
        Rz = torch.tensor([[math.cos(y), -math.sin(y), 0], [math.sin(y), math.cos(y), 0], [0, 0, 1]], dtype=DT)
        Ry = torch.tensor([[math.cos(p_), 0, math.sin(p_)], [0, 1, 0], [-math.sin(p_), 0, math.cos(p_)]], dtype=DT)
        Rx = torch.tensor([[1, 0, 0], [0, math.cos(r), -math.sin(r)], [0, math.sin(r), math.cos(r)]], dtype=DT)
        err = (Rz @ Ry @ Rx - R).abs().max().item()
        rng = abs(r) > math.pi + 1e-12 or abs(y) > math.pi + 1e-12 or abs(p_) > math.pi / 2 + 1e-12
        err2 = (pp.euler2SO3(e).matrix() - R).abs().max().item()
        return err > tolr or err2 > tolr or rng, ('Rz Ry Rx of X.euler()=%s differs from the rotation of X by %.3g (euler2SO3 round trip: %.3g)%s at X=%s'
                                                  % (e.tolist(), err, err2, ', angle outside its principal range' if rng else '', xv.tolist()))

    for ctx, (e, pe, xs) in run_paths(H, name, prog, track_poison=True, max_paths=8, f32=f32):
        pn = H.paths
        t, q, s = parts(g, xs)
        x, y, z, w = q
        t2 = 2 * (w * y - z * x)
        ang = []
        for nm, a in zip(('r', 'p', 'y'), e):
            ang.append((ctx.tfun('sin', a), ctx.tfun('cos', a)))
        hyp = H.hyps_of(ctx) + [t2 < 1 - EPS, t2 > -(1 - EPS)]
        if z3.is_rational_value(z3.simplify(e[0])):
            # the gimbal-lock selection (roll := 0): outside the round-trip clause; only finiteness is asked
            ps = [p_ for p_ in pe if p_ is not None]
            H.prove('%s/path%d/gimbal-region/finite' % (name, pn), list(ctx.assume) + list(ctx.pc), z3.Not(z3.Or(ps)) if ps else z3.BoolVal(True),
                    replay=replay, key='C11/euler-roundtrip', timeout=20)
            # the fallback may only be selected where the clause does not apply: |sin(pitch)| >= 1 - eps (documented default eps = 2e-4)
            H.prove('%s/path%d/gimbal-fallback-only-inside-the-excluded-band' % (name, pn), list(ctx.assume) + list(ctx.pc),
                    z3.Or(t2 >= 1 - EPS, t2 <= -(1 - EPS)), replay=replay, key='C11/euler-roundtrip', timeout=20)
            continue
        (sr, cr), (sp, cp), (sy, cy) = ang
        key = 'C11/euler-roundtrip'
        # staged: the sines and cosines of the returned angles in terms of the quaternion
        t0, t1 = 2 * (w * x + y * z), (w * w + z * z) - (x * x + y * y)
        t3, t4 = 2 * (w * z + x * y), (w * w + x * x) - (y * y + z * z)
        unit = T.dot(q, q) == 1
        lem = [('sin(pitch)', z3.And(sp == t2, cp > 0)),
               ('unit', unit),
               ('pyth(pitch)', sp * sp + cp * cp == 1), ('pyth(roll)', sr * sr + cr * cr == 1), ('pyth(yaw)', sy * sy + cy * cy == 1),
               ('cos(pitch)^2', z3.And(cp * cp == t0 * t0 + t1 * t1, cp * cp == t3 * t3 + t4 * t4), ['sin(pitch)', 'pyth(pitch)', 'unit']),
               ('roll:atan2', z3.And(t0 * cr == t1 * sr, t0 * sr + t1 * cr > 0)),
               ('yaw:atan2', z3.And(t3 * cy == t4 * sy, t3 * sy + t4 * cy > 0)),
               ('roll', z3.And(sr * cp == t0, cr * cp == t1), ['roll:atan2', 'pyth(roll)', 'cos(pitch)^2', 'sin(pitch)']),
               ('yaw', z3.And(sy * cp == t3, cy * cp == t4), ['yaw:atan2', 'pyth(yaw)', 'cos(pitch)^2', 'sin(pitch)'])]
        hy, lobs, tab = H.chain('%s/path%d' % (name, pn), hyp, lem, replay=replay, key=key, timeout=(30 if H.quick else 120))
        Rz = [[cy, -sy, 0], [sy, cy, 0], [0, 0, 1]]
        Ry = [[cp, 0, sp], [0, 1, 0], [-sp, 0, cp]]
        Rx = [[1, 0, 0], [0, cr, -sr], [0, sr, cr]]
        got = T.flat(T.mm(T.mm([[T.R(v) for v in r_] for r_ in Rz], [[T.R(v) for v in r_] for r_ in Ry]), [[T.R(v) for v in r_] for r_ in Rx]))
        want = T.flat(T.quat_rot(q))
        rels = [sr * cp - t0, cr * cp - t1, sy * cp - t3, cy * cp - t4, sp - t2, cp * cp - (t0 * t0 + t1 * t1), T.dot(q, q) - 1]
        used = ['sin(pitch)', 'unit', 'cos(pitch)^2', 'roll', 'yaw']
        for i in range(9):
            d = got[i] - want[i]
            # cos(pitch)^2 (R_oracle - R(q)) is a polynomial identity modulo the lemma relations (certificate); cos(pitch) > 0 finishes
            oc = H.certify('%s/path%d/cos(pitch)^2.R[%d]' % (name, pn, i), cp * cp * got[i], cp * cp * want[i], rels, replay=replay, key=key,
                           hyps=[tab[u][0] for u in used], depends=[tab[u][1] for u in used], elim=[sr, cr, sy, cy, sp, cp],
                           timeout=(30 if H.quick else 120))
            H.prove('%s/path%d/R[%d]' % (name, pn, i), [cp * cp * got[i] == cp * cp * want[i], cp > 0], got[i] == want[i], replay=replay, key=key,
                    depends=[oc, tab['sin(pitch)'][1]], timeout=20)
        from symx.engine import PI
        H.prove('%s/path%d/principal-ranges' % (name, pn), hyp, z3.And(e[0] > -PI, e[0] <= PI, e[2] > -PI, e[2] <= PI, e[1] >= -PI / 2, e[1] <= PI / 2),
                replay=replay, key=key, timeout=20)
        ps = [p_ for p_ in pe if p_ is not None]
        # (focused: validity of X and the path condition suffice; the transcendental axioms are irrelevant here)
        H.prove('%s/path%d/finite' % (name, pn), list(ctx.assume) + list(ctx.pc), z3.Not(z3.Or(ps)) if ps else z3.BoolVal(True), replay=replay, key=key, timeout=20)
        H.reach('%s/path%d/reach' % (name, pn), hyp)


def run(H):
    H.assumptions += ['exact real arithmetic', 'inputs are matrices of valid elements (|q|=1, scale in [1e-3,1e3])']
    H.bounds += ['single items', 'layouts 3x3/3x4/4x4', 'Euler round trip: composed from euler2SO3(e) == Rz Ry Rx for all e and Rz Ry Rx(X.euler()) == R(X) for all X outside the gimbal region (quick: SO3; thorough: all groups)']
    only = getattr(H, 'only', None)
    cases = [('SO3', '3x3', True, False), ('SO3', '4x4', False, False), ('SE3', '4x4', True, False), ('SE3', '3x4', True, True),
             ('RxSO3', '3x3', True, False), ('Sim3', '4x4', True, False)]
    if not H.quick:
        cases += [('SO3', '3x4', True, True), ('SE3', '3x3', True, False), ('Sim3', '3x4', True, True), ('Sim3', '3x3', False, False),
                  ('RxSO3', '4x4', True, True)]
    for g, layout, check, viafm in cases:
        if only and only not in g:
            continue
        try:
            case_mat2(H, g, layout, check, viafm)
        except Exception as e:
            import traceback; traceback.print_exc()
            H.engine_error('mat2%s' % g, e)
    for kind, via in (('not-orthogonal', None), ('reflection', None), ('not-orthogonal', 'from_matrix')):
        try:
            case_reject(H, kind, via)
        except Exception as e:
            import traceback; traceback.print_exc()
            H.engine_error('reject', e)
    try:
        case_euler(H)
        for g in (['SO3'] if H.quick else GROUPS):
            case_euler_roundtrip(H, g)
        case_euler_roundtrip(H, 'SO3', f32=True)
    except Exception as e:
        import traceback; traceback.print_exc()
        H.engine_error('euler', e)
    return H.finish(explanation=EXPLAIN)
