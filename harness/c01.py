"""C01 - Exp is the matrix exponential on so3, se3, rxso3 and sim3."""
import torch
import z3

import pypose as pp
from symx import terms as T
from symx.terms import diff, subst
from symx.engine import rat
from .common import *
from .jac import small_regime

EXPLAIN = ("pp.so3/se3/rxso3/sim3(x).Exp() run under symx with fully symbolic x on every branch (theta<=eps, |sigma|<=eps reached by decision). "
           "Oracle = characterisation of the matrix exponential of the generator [[sigma I + K, tau],[0,0]], not the code's coefficient "
           "formulas: rotation block = e^sigma (I + sin(theta)/theta K + (1-cos(theta))/theta^2 K^2) (Rodrigues, with the lemma K^3 = -theta^2 K "
           "that collapses the power series), unit quaternion, scale = e^sigma, and the translation coupling W (extracted exactly from the "
           "output, which is linear in tau) satisfies (sigma I + K) W = W (sigma I + K) = e^sigma R - I (and W phi = phi when sigma = 0): these "
           "determine W uniquely. Closed-form branches: exact; Taylor branches: within 1e-15 (round-off level). Additionally a ROUNDING-MODEL "
           "obligation (standard model fl(x op y) = (x op y)(1+delta)) on the scalar coefficient C(sigma) of the scale-translation coupling "
           "bounds its relative floating-point error by 100 sqrt(eps) for all eps<|sigma|<=8.")


def case_exp(H, g, f32=False):
    name = 'C01/%s/Exp%s' % (ALG[g], '/float32' if f32 else '')
    dt = torch.float32 if f32 else DT
    n = ADIM[g]

    def prog(m):
        a = rand_alg(g, 80, dtype=dt)
        as_ = m.symbolic(a, 'a')
        ta, ph, sg = aparts(g, as_)
        if sg is not None:
            m.ctx.assume += [sg >= -8, sg <= 8]
        X = pp.LieTensor(a, ltype=ATYPE[g]).Exp()
        M = X.matrix()
        return m.full_terms(X.tensor()), m.full_terms(M), as_, m, X, M

    def replay(model):
        import mpmath
        mpmath.mp.dps = 40
        av0 = tensor_from_env(['a%d' % i for i in range(n)], model, dtype=dt)
        cands = [av0]
        if aparts(g, list(range(n)))[0] is not None:
            # obligations on the coupling matrix W leave tau free in the model: also look at tau = e_1, e_2, e_3 and tau = phi
            ti, pi_, _ = aparts(g, list(range(n)))
            for tv in ([1.0, 0, 0], [0, 1.0, 0], [0, 0, 1.0], [float(av0[k]) for k in pi_]):
                c = av0.clone()
                for k, v in zip(ti, tv):
                    c[k] = v
                cands.append(c)
        # rotation magnitudes around the candidate (the solver's point is arbitrary inside its branch)
        _, pidx, _ = aparts(g, list(range(n)))
        for av in list(cands[:1]):
            for f in (2.0, 5.0, 10.0, 0.5, 0.2, 0.1):
                c = av.clone()
                for k in pidx:
                    c[k] = av[k] * f
                cands.append(c)
        eps_ = torch.finfo(dt).eps
        worst, wav, wwhat = -1.0, av0, ''
        for av in cands:
            X = pp.LieTensor(av, ltype=ATYPE[g]).Exp()
            M = X.matrix().double()
            qi_ = {'SO3': 0, 'SE3': 3, 'RxSO3': 0, 'Sim3': 3}[g]
            nerr = abs(X.tensor()[qi_:qi_ + 4].double().norm().item() - 1.0)
            ta, ph, sg = aparts(g, [mpmath.mpf(float(v)) for v in av.tolist()])
            K = mpmath.matrix([[0, -ph[2], ph[1]], [ph[2], 0, -ph[0]], [-ph[1], ph[0], 0]])
            G = mpmath.zeros(4, 4)
            for i in range(3):
                for j in range(3):
                    G[i, j] = K[i, j] + (sg if (sg is not None and i == j) else 0)
                if ta is not None:
                    G[i, 3] = ta[i]
            E = mpmath.expm(G)
            # the property's accuracy: rotation and scale blocks within a small multiple of eps (64 allowed here; about 8 observed on the
            # unchanged tree over 1e4 points), unit quaternion likewise (16 eps), translation block within 100 sqrt(eps); each error is
            # expressed as a multiple of its allowance
            rs = max(abs(float(E[i, j])) for i in range(3) for j in range(3))
            rerr = max(abs(float(E[i, j]) - M[i, j].item()) for i in range(3) for j in range(3)) / rs
            errs = [(rerr / (64 * eps_), 'rotation/scale block off by %.3g (relative; allowed 64 eps)' % rerr),
                    (nerr / (16 * eps_), 'quaternion norm off by %.3g (allowed 16 eps)' % nerr)]
            if ta is not None and M.shape[0] == 4:
                tn = float(mpmath.sqrt(sum(E[i, 3] ** 2 for i in range(3))))
                if tn > 0:
                    terr = float(mpmath.sqrt(sum((mpmath.mpf(M[i, 3].item()) - E[i, 3]) ** 2 for i in range(3)))) / tn
                    errs.append((terr / (100 * eps_ ** 0.5), 'translation block off by %.3g (relative; allowed 100 sqrt(eps))' % terr))
            for e_, w_ in errs:
                if e_ > worst:
                    worst, wav, wwhat = e_, av, w_
        return worst > 1.0, 'matrix(Exp(x)) vs expm(hat x): %s at x=%s' % (wwhat, wav.tolist())

    for ctx, (q, M, as_, m, X, Mt) in run_paths(H, name, prog, max_paths=16, f32=f32):
        selftest(H, ctx, m, [(q, X.tensor().double() if f32 else X.tensor()), (M, Mt.double() if f32 else Mt)], name) if not f32 else None
        pn = H.paths
        ta, ph, sg = aparts(g, as_)
        tq, qq, sq = parts(g, q)
        theta = ctx.tfun('sqrt', T.dot(ph, ph))
        S, Cc = ctx.tfun('sin', theta), ctx.tfun('cos', theta)
        K = T.skew(ph)
        K2 = T.mm(K, K)
        hyp = H.hyps_of(ctx)
        big = z3.RealVal('1/1000000')
        small_theta = ctx.feasible([theta > big]) == 'unsat'
        small_sigma = sg is not None and ctx.feasible([z3.Or(sg > big, sg < -big)]) == 'unsat'
        small = small_theta or small_sigma
        # joint Taylor branch of the coupling matrix (theta^2 + sigma^2 below a dtype-dependent cut-off well above eps): its truncation
        # error is by design far below the translation block's sqrt(eps) allowance but not at round-off level
        small_W = (not small) and sg is not None and ctx.feasible([T.dot(ph, ph) + sg * sg > z3.RealVal('1/10000')]) == 'unsat'
        tolW = (z3.RealVal('1/1000000000000') if not f32 else z3.RealVal('1/100000')) if small_W else None
        tol = z3.RealVal('1/1000000000000000') if not f32 else z3.RealVal('1/1000000')
        to = (20 if g != 'Sim3' else 12) if H.quick else 120
        key = 'C01/%s' % ALG[g]

        def eq(nm, lhs, rhs, scale=None, approx=None, tol_=None):
            d = lhs - rhs
            if (small if approx is None else approx):
                bound = (tol_ if tol_ is not None else tol) * (1 + (scale if scale is not None else 0))
                H.prove('%s/path%d/%s/small-regime' % (name, pn, nm), hyp, z3.And(d <= bound, d >= -bound), replay=replay, key=key, timeout=to,
                        neg_margin=z3.Or(d > z3.RealVal('1/1000'), d < -z3.RealVal('1/1000')))
            else:
                H.prove('%s/path%d/%s' % (name, pn, nm), hyp, lhs == rhs, replay=replay, key=key, timeout=to,
                        neg_margin=[z3.Or(d > z3.RealVal(mg), d < -z3.RealVal(mg)) for mg in ('1/1000', '1/1000000000', '1/10000000000000')])
        # rotation block of the documented matrix: from the returned quaternion by the textbook formula (the relation between
        # matrix() and the quaternion is C03's subject); Rodrigues with the oracle's own sin/cos of theta
        Rq = T.quat_rot(qq)
        if small_theta:
            # in the tiny-angle regime theta may be 0: compare with the limit form I + K + K^2/2 up to round-off level
            Rod = [[(1 if i == j else 0) + K[i][j] + K2[i][j] / 2 for j in range(3)] for i in range(3)]
        else:
            Rod = [[(1 if i == j else 0) + S / theta * K[i][j] + (1 - Cc) / (theta * theta) * K2[i][j] for j in range(3)] for i in range(3)]
        for i in range(3):
            for j in range(3):
                eq('rotation[%d,%d]' % (i, j), Rq[i][j], Rod[i][j], approx=small_theta)
        eq('unit-quaternion', T.dot(qq, qq), z3.RealVal(1), approx=small_theta)
        if sg is not None:
            eq('scale==exp(sigma)', sq, ctx.tfun('exp', sg), approx=False)
        # lemma that collapses the exponential series of K to Rodrigues: K^3 = -theta^2 K  (free identity modulo theta^2 = phi.phi)
        K3 = T.mm(K2, K)
        for i in range(3):
            for j in range(3):
                H.certify('%s/path%d/lemma:K^3==-theta^2K[%d,%d]' % (name, pn, i, j), K3[i][j], -T.dot(ph, ph) * K[i][j], [], key=key)
        if ta is not None:
            # W from the output translation (linear in tau): W[i][j] = d t_i / d tau_j
            W = [[diff(tq[i], ta[j], ctx.tfvar, ctx) for j in range(3)] for i in range(3)]
            lin = [tq[i] - z3.Sum([W[i][j] * ta[j] for j in range(3)]) for i in range(3)]
            for i in range(3):
                eq('translation-linear-in-tau[%d]' % i, lin[i], z3.RealVal(0))
            sgv = sg if sg is not None else z3.RealVal(0)
            es = ctx.tfun('exp', sg) if sg is not None else z3.RealVal(1)
            A = [[K[i][j] + (sgv if i == j else 0) for j in range(3)] for i in range(3)]
            RHS = [[es * Rod[i][j] - (1 if i == j else 0) for j in range(3)] for i in range(3)]
            AW, WA = T.mm(A, W), T.mm(W, A)
            if sg is not None and not f32:
                # sim3: the same characterisation in SCALAR form.  The code's W is C I + A K + B K^2 with scalar coefficient terms read
                # off the output (A = -dW01/dphi2, B = d2W01/dphi0 dphi1, C = W00 + B (phi1^2 + phi2^2), abstraction variables held
                # constant); that reading is validated entry by entry as a free polynomial identity (certificate).  With Z = sigma I + K and
                # K^3 = -theta^2 K (lemma above):  Z W = W Z = sigma C I + (C + sigma A - theta^2 B) K + (A + sigma B) K^2, to be compared
                # with (e^sigma - 1) I + e^sigma (sin theta/theta) K + e^sigma ((1 - cos theta)/theta^2) K^2.  As |K_ij| <= theta and
                # |K^2_ij| <= theta^2, bounding the three scalar defects (times 1, theta, theta^2) bounds every matrix entry.
                Ac = z3.simplify(-diff(W[0][1], ph[2]))
                Bc = z3.simplify(diff(diff(W[0][1], ph[0]), ph[1]))
                Cc_ = z3.simplify(W[0][0] + Bc * (ph[1] * ph[1] + ph[2] * ph[2]))
                for i in range(3):
                    for j in range(3):
                        H.certify('%s/path%d/W==C.I+A.K+B.K^2[%d,%d]' % (name, pn, i, j), W[i][j],
                                  Cc_ * (1 if i == j else 0) + Ac * K[i][j] + Bc * K2[i][j], [], hyps=hyp, key=key, replay=replay)
                th2 = T.dot(ph, ph)
                if small_theta:
                    want_b, want_c = es, es / 2          # limits of e^sigma sin(theta)/theta and e^sigma (1 - cos theta)/theta^2
                else:
                    want_b, want_c = es * S / theta, es * (1 - Cc) / (theta * theta)
                defects = [('I', sgv * Cc_ - (es - 1), z3.RealVal(1)), ('K', Cc_ + sgv * Ac - th2 * Bc - want_b, theta), ('K^2', Ac + sgv * Bc - want_c, th2)]
                approx_ = small or small_W
                tl = tolW if tolW is not None else tol
                for nm_, dfc, wgt in defects:
                    if approx_:
                        H.prove('%s/path%d/(sigma.I+K).W-(e^sigma.R-I)/coefficient-of-%s/small-regime' % (name, pn, nm_), hyp,
                                z3.And(dfc * wgt <= tl, dfc * wgt >= -tl), replay=replay, key=key, timeout=to,
                                neg_margin=[z3.Or(dfc * wgt > z3.RealVal(mg), dfc * wgt < -z3.RealVal(mg)) for mg in ('1/1000', '1/1000000000')])
                    else:
                        H.certify('%s/path%d/(sigma.I+K).W-(e^sigma.R-I)/coefficient-of-%s' % (name, pn, nm_), dfc, z3.RealVal(0),
                                  [theta * theta - th2, S * S + Cc * Cc - 1] + ([ctx.tfun('expm1', sg) - (es - 1)] if 'expm1' in str(dfc) else []),
                                  hyps=hyp, replay=replay, key=key, timeout=to)
            for i in range(3):
                for j in range(3):
                    if sg is not None and not f32:
                        break
                    eq('A.W==e^sigma.R-I[%d,%d]' % (i, j), AW[i][j], RHS[i][j], approx=(small or small_W), tol_=tolW)
                    eq('W.A==e^sigma.R-I[%d,%d]' % (i, j), WA[i][j], RHS[i][j], approx=(small or small_W), tol_=tolW)
            if sg is None:
                Wp = T.mv(W, ph)
                for i in range(3):
                    eq('W.phi==phi[%d]' % i, Wp[i], ph[i])
            else:
                # projection on the rotation axis (K phi = 0): W phi = ((e^sigma - 1)/sigma) phi, and = phi up to round-off level
                # in the |sigma| <= eps branch.  Cheap and decisive for the coefficient of I in every regime pair.
                Wp = T.mv(W, ph)
                for i in range(3):
                    if small_sigma:
                        eq('W.phi==phi[%d]' % i, Wp[i], ph[i], scale=ph[i] * ph[i], approx=True)
                    else:
                        eq('sigma.W.phi==(e^sigma-1).phi[%d]' % i, sg * Wp[i], (es - 1) * ph[i], scale=ph[i] * ph[i], approx=(small or small_W), tol_=tolW)
        if pn % 2 == 0:
            H.reach('%s/path%d/reach' % (name, pn), hyp)


def case_batch_mixed(H, g):
    """a batch that mixes a rotation-free twist with a generic one (whole-batch shortcuts / mask arithmetic inside Exp): every row of
    the batched Exp must be the Exp of that row alone (which the single-item cases characterise)"""
    name = 'C01/%s/Exp/batch(rotation-free, generic)' % ALG[g]
    n = ADIM[g]
    pidx = aparts(g, list(range(n)))[1]

    def rows(a):
        full = pp.LieTensor(a, ltype=ATYPE[g]).Exp().tensor()
        items = [pp.LieTensor(a[k], ltype=ATYPE[g]).Exp().tensor() for k in range(a.shape[0])]
        return full, items

    def prog(m):
        a = torch.stack([rand_alg(g, 85), rand_alg(g, 86)])
        with torch.no_grad():
            for k in pidx:
                a[0, k] = 0.0
        as_ = m.symbolic(a, 'a')
        m.set_terms(a, [z3.RealVal(0) if (i < n and i in pidx) else v for i, v in enumerate(as_)])
        ta, ph, sg = aparts(g, as_[n:])
        m.ctx.assume += [T.dot(ph, ph) > z3.RealVal('1/100'), T.dot(ph, ph) < 4]
        if sg is not None:
            for v in (as_[n - 1], as_[2 * n - 1]):
                m.ctx.assume += [z3.Or(v > z3.RealVal('1/100'), v < -z3.RealVal('1/100')), v < 2, v > -2]
        full, items = rows(a)
        return m.full_terms(full), [t_ for it in items for t_ in m.full_terms(it)]

    def replay(model):
        a = tensor_from_env(['a%d' % i for i in range(2 * n)], model).view(2, n)
        if float(a.abs().sum()) == 0:
            a = torch.stack([rand_alg(g, 85), rand_alg(g, 86)])
        for k in pidx:
            a[0, k] = 0.0
        full, items = rows(a)
        e = (full - torch.stack(items)).abs().max().item()
        return e > 1e-9, 'batched Exp of [rotation-free, generic] %s twists differs from the row-wise Exp by %.3g' % (ALG[g], e)

    for ctx, (full, items) in run_paths(H, name, prog, max_paths=8):
        hyp = H.hyps_of(ctx)
        H.prove('%s/path%d/same-length' % (name, H.paths), [], z3.BoolVal(len(full) == len(items)), replay=replay, key='C01/%s/batch' % ALG[g])
        for i, (l, r) in enumerate(zip(full, items)):
            H.same('%s/path%d/row-entry[%d]' % (name, H.paths, i), hyp, l, r, ctx, replay=replay, key='C01/%s/batch' % ALG[g], timeout=15)


def case_rounding_C(H, f32=False):
    """standard-model rounding analysis of the scalar coefficient C(sigma) = (e^sigma - 1)/sigma of the sim3/rxso3 coupling matrix,
    observed through the public API as the x-translation of sim3([1,0,0, 0,0,0, sigma]).Exp()"""
    name = 'C01/rounding/rxso3_Ws.C%s' % ('/float32' if f32 else '')
    dt = torch.float32 if f32 else DT
    eps = torch.finfo(dt).eps
    u = rat(eps) / 2

    def prog(m):
        m.ctx.round_u = u
        x = torch.tensor([1.0, 0, 0, 0, 0, 0, 1e-3], dtype=dt)
        sig = z3.Real('sigma')
        m.ctx.env['sigma'] = 1e-3
        m.set_terms(x, [None] * 6 + [sig])
        m.ctx.assume += [z3.Or(sig > rat(eps), sig < -rat(eps)), sig <= 8, sig >= -8]
        X = pp.sim3(x).Exp()
        return m.full_terms(X.tensor())[0], sig

    def replay(model):
        import mpmath
        mpmath.mp.dps = 50
        s0 = float(model.get('sigma', 3 * eps))
        worst, ws = 0.0, None
        # stencil around the model point (the solver prefers dyadic points where real rounding is benign)
        cand = [s0 * f for f in (1.0, 1.3, 0.77, 1.9, 2.7, 0.51, 3.3, 7.1, 13.7, 0.13, 0.0137, 0.00137)]
        cand += [sgn * f * eps for sgn in (1, -1) for f in (1.3, 1.7, 3.3, 13.7, 137.3, 1370.3)]
        for s in cand:
            if abs(s) <= eps or abs(s) > 8:
                continue
            xs = torch.tensor([1.0, 0, 0, 0, 0, 0, s], dtype=dt)
            sv = mpmath.mpf(float(xs[6]))
            got = pp.sim3(xs).Exp().tensor()[0].item()
            ref = mpmath.expm1(sv) / sv
            e = abs(float((mpmath.mpf(got) - ref) / ref))
            if e > worst:
                worst, ws = e, float(xs[6])
        tol = 100 * eps ** 0.5
        return worst > tol, 'relative error of the translation coupling coefficient C(sigma): %.3g at sigma=%.3g (allowed %.3g)' % (worst, ws or 0, tol)

    for ctx, (t0, sig) in run_paths(H, name, prog, max_paths=8, f32=f32):
        hyp = H.hyps_of(ctx) + [z3.And(d <= u, d >= -u) for d in ctx.deltas]
        exact = subst(t0, [(d, z3.RealVal(0)) for d in ctx.deltas])
        tol = 100 * rat(float(eps ** 0.5))
        err = t0 - exact
        ab = lambda e: z3.If(e >= 0, e, -e)
        H.prove('%s/path%d/relative-error<=100sqrt(eps)' % (name, H.paths), hyp, ab(err) <= tol * ab(exact), replay=replay,
                key='C01/rounding/rxso3_Ws.C', timeout=(30 if H.quick else 120))
        H.notes.append('%s: %d rounding variables' % (name, len(ctx.deltas)))


def case_rounding_W(H, f32=False):
    """standard-model rounding analysis of the whole scale-translation coupling W = C I + A K + B K^2 (rxso3_Ws), observed through
    the public API as the translation of sim3([1,0,0, 0,0,theta, sigma]).Exp() = (C - B theta^2, A theta, 0): every regime pair of
    (theta, sigma) is a path; on each the rounding error of both components must stay below 100 sqrt(eps) of the translation's size"""
    name = 'C01/rounding/rxso3_Ws.AB%s' % ('/float32' if f32 else '')
    dt = torch.float32 if f32 else DT
    eps = torch.finfo(dt).eps
    u = rat(eps) / 2
    tolf = 100 * eps ** 0.5

    def prog(m):
        m.ctx.round_u = u
        x = torch.tensor([1.0, 0, 0, 0, 0, 1e-3, 2e-3], dtype=dt)
        th, sig = z3.Real('theta'), z3.Real('sigma')
        m.ctx.env['theta'], m.ctx.env['sigma'] = 1e-3, 2e-3
        m.set_terms(x, [None] * 5 + [th, sig])
        m.ctx.assume += [th > 0, th <= z3.RealVal('1/4'), sig <= z3.RealVal('1/4'), sig >= -z3.RealVal('1/4')]
        X = pp.sim3(x).Exp()
        t = m.full_terms(X.tensor())
        return t[0], t[1], th, sig

    def replay(model):
        import mpmath
        mpmath.mp.dps = 50
        th0, s0 = abs(float(model.get('theta', 3 * eps))), float(model.get('sigma', 3 * eps))
        fac = (1.0, 1.3, 0.77, 1.9, 2.7, 0.51, 3.3, 7.1, 0.13)
        cand = [(th0 * f, s0 * g) for f in fac for g in fac]
        cand += [(f * eps, sgn * g * eps) for sgn in (1, -1) for f in (1.3, 1.7, 3.3, 13.7, 137.3, 1370.3) for g in (1.3, 1.7, 3.3, 13.7, 137.3, 1370.3)]
        worst, wp = 0.0, None
        for th_, s_ in cand:
            if not (0 < th_ <= 0.25 and abs(s_) <= 0.25):
                continue
            xs = torch.tensor([1.0, 0, 0, 0, 0, th_, s_], dtype=dt)
            tv, sv = mpmath.mpf(float(xs[5])), mpmath.mpf(float(xs[6]))
            G = mpmath.matrix([[sv, -tv, 0, 1], [tv, sv, 0, 0], [0, 0, sv, 0], [0, 0, 0, 0]])
            E = mpmath.expm(G)
            got = pp.sim3(xs).Exp().tensor()[:3].double().tolist()
            nrm = mpmath.sqrt(sum(E[i, 3] ** 2 for i in range(3)))
            e = float(mpmath.sqrt(sum((mpmath.mpf(got[i]) - E[i, 3]) ** 2 for i in range(3))) / nrm)
            if e > worst:
                worst, wp = e, (float(xs[5]), float(xs[6]))
        return worst > tolf, ('relative error of the translation of sim3([1,0,0, 0,0,theta, sigma]).Exp(): %.3g at theta=%.3g, sigma=%.3g '
                              '(allowed %.3g)' % ((worst,) + (wp or (0, 0)) + (tolf,)))

    for ctx, (t0, t1, th, sig) in run_paths(H, name, prog, max_paths=16, f32=f32):
        pn = H.paths
        hyp = H.hyps_of(ctx) + [z3.And(d <= u, d >= -u) for d in ctx.deltas]
        zero = [(d, z3.RealVal(0)) for d in ctx.deltas]
        e0, e1 = subst(t0, zero), subst(t1, zero)
        tol = rat(float(tolf))
        ab = lambda e: z3.If(e >= 0, e, -e)
        for i, (t, e) in enumerate(((t0, e0), (t1, e1))):
            H.prove('%s/path%d/rounding-error(t[%d])<=100sqrt(eps)|t|' % (name, pn, i), hyp, ab(t - e) <= tol * ab(e0), replay=replay,
                    key='C01/rounding/rxso3_Ws.AB', timeout=(30 if H.quick else 150))
        H.reach('%s/path%d/reach' % (name, pn), hyp)
        H.notes.append('%s path %d: %d rounding variables' % (name, pn, len(ctx.deltas)))


def run(H):
    H.assumptions += ['exact real arithmetic for the identity obligations; the standard model of floating-point arithmetic (|delta|<=u per operation, '
                      'libm functions within 1 ulp, no under/overflow) for the rounding obligation', '|sigma| <= 8']
    H.bounds += ['single items, plus batches of two mixing a rotation-free and a generic twist (general batching is C06)', 'float64 thresholds (float32 thresholds in the thorough tier)',
                 'rounding model only for the scalar coefficient C(sigma); accuracy of the A, B coefficients in the bands where both theta and sigma '
                 'are tiny is NOT covered']
    only = getattr(H, 'only', None)
    for g in GROUPS:
        if only and only not in ALG[g]:
            continue
        try:
            case_exp(H, g)
            if not H.quick:
                case_exp(H, g, f32=True)
        except Exception as e:
            import traceback; traceback.print_exc()
            H.engine_error('exp/' + g, e)
    for g in ('SE3', 'Sim3'):
        if only and only not in 'batch':
            continue
        try:
            case_batch_mixed(H, g)
        except Exception as e:
            import traceback; traceback.print_exc()
            H.engine_error('batch/' + g, e)
    for f32 in (False, True):
        if only and only not in 'rounding':
            continue
        try:
            case_rounding_C(H, f32)
            case_rounding_W(H, f32)
        except Exception as e:
            import traceback; traceback.print_exc()
            H.engine_error('rounding', e)
    return H.finish(explanation=EXPLAIN)
