"""C19 - splines interpolate and are equivariant; APE/RPE statistics; geodesic loss."""
import torch
import z3

import pypose as pp
from symx import terms as T
from symx.engine import PI, rat
from .common import *
from .jac import gmul

EXPLAIN = ("chspline runs under symx on symbolic points (index logic concrete): it passes through every input point at integer times, "
           "reproduces uniformly sampled straight lines a + b t exactly for symbolic a, b, and returns (N-1)k+1 samples. bspline runs with the "
           "SE3 Log/Exp of the relative poses cut to fresh symbolic algebra/group values (C01/C02), honouring Log(I)=0, Exp(0)=I, Exp(1*Log X)=X: "
           "the sampling weights handed to Exp equal B [1,u,u^2,u^3] at u = m*interval; left-multiplying all poses by a fixed symbolic pose "
           "leaves the relative poses unchanged (certificates modulo unit norms) and therefore left-multiplies every output; with "
           "extrapolate=True the first and last outputs are the first and last pose. ape/rpe with identical stamps: zero statistics for "
           "identical trajectories, rpe unchanged by left-multiplying the reference or the estimate by a fixed pose, Max>=RMSE>=Mean>=Min>=0. "
           "geodesic_loss: symmetric, in [0,pi], reductions consistent. NOT covered: ape(align) invariance (optimality of the SVD alignment over "
           "arbitrary trajectories - see C17 for the alignment itself), timestamp association with jitter, bspline continuity across segments "
           "and constant-twist reproduction (would need Log/Exp composition identities beyond the solver caps).")


# ------------------------------------------------------------------------------------------------ chspline
def case_chspline(H, N, interval, C):
    name = 'C19/chspline/N=%d/interval=%s/C=%d' % (N, interval, C)
    k = len(torch.arange(0, 1, interval))

    def prog(m):
        P = torch.randn(N, C, dtype=DT)
        ps = m.symbolic(P, 'p')
        out = pp.chspline(P, interval)
        # straight line: points = a + b * i
        a = torch.randn(C, dtype=DT)
        b = torch.randn(C, dtype=DT)
        as_, bs = m.symbolic(a, 'a'), m.symbolic(b, 'b')
        Lp = torch.zeros(N, C, dtype=DT)
        m.set_terms(Lp, [as_[c] + bs[c] * i for i in range(N) for c in range(C)])
        outl = pp.chspline(Lp, interval)
        return m.full_terms(out), tuple(out.shape), ps, m.full_terms(outl), as_, bs

    def replay(model):
        torch.manual_seed(1)
        P = torch.randn(N, C, dtype=DT)
        out = pp.chspline(P, interval)
        bad = out.shape[0] != (N - 1) * k + 1
        e1 = max((out[i * k] - P[i]).abs().max().item() for i in range(N)) if not bad else 1.0
        a, b = torch.randn(C, dtype=DT), torch.randn(C, dtype=DT)
        Lp = a + b * torch.arange(N, dtype=DT).unsqueeze(-1)
        ol = pp.chspline(Lp, interval)
        tl = torch.cat([(torch.arange(0, N - 1, dtype=DT).unsqueeze(-1) + torch.arange(0, 1, interval, dtype=DT)).view(-1), torch.tensor([N - 1.0], dtype=DT)])
        e2 = (ol - (a + b * tl.unsqueeze(-1))).abs().max().item() if ol.shape[0] == tl.shape[0] else 1.0
        return bad or e1 > 1e-9 or e2 > 1e-9, 'chspline: %d samples (expected %d), max deviation at the knots %.3g, on a straight line %.3g' % (
            out.shape[0], (N - 1) * k + 1, e1, e2)

    for ctx, (out, shape, ps, outl, as_, bs) in run_paths(H, name, prog):
        ns = (N - 1) * k + 1
        H.prove(name + '/sample-count', [], z3.BoolVal(shape == (ns, C)), replay=replay, key='C19/chspline')
        if shape != (ns, C):
            continue
        goals = []
        for i in range(N):
            for c in range(C):
                goals.append(out[(i * k) * C + c] == ps[i * C + c])
        H.prove(name + '/interpolates-input-points', [], z3.And(goals), replay=replay, key='C19/chspline')
        times = [rat(float(i + j * interval)) for i in range(N - 1) for j in range(k)] + [rat(float(N - 1))]
        tl = torch.cat([(torch.arange(0, N - 1, dtype=DT).unsqueeze(-1) + torch.arange(0, 1, interval, dtype=DT)).view(-1), torch.tensor([N - 1.0], dtype=DT)])
        times = [rat(v) for v in tl.tolist()]
        tolr = z3.RealVal('1/1000000000000')        # the sample times themselves are computed in floating point by the library
        g2 = [z3.And(outl[s * C + c] - (as_[c] + bs[c] * times[s]) <= tolr * (1 + bs[c] * bs[c]), outl[s * C + c] - (as_[c] + bs[c] * times[s]) >= -tolr * (1 + bs[c] * bs[c]))
              for s in range(ns) for c in range(C)]
        H.prove(name + '/exact-on-straight-lines', [], z3.And(g2), replay=replay, key='C19/chspline', timeout=20)


# ------------------------------------------------------------------------------------------------ bspline
class LogExpCut:
    """replaces LieTensor.Log / LieTensor.Exp for SE3/se3 by contract stubs: fresh symbolic outputs per call (re-used in call order
    when `reuse` is given), with the algebraic facts Log(I)=0, Exp(0)=I, Exp(1 * Log(X)) = X"""
    def __init__(self, m, reuse=None):
        self.m, self.logs, self.exps, self.reuse = m, [], [], reuse
        self.ident = [z3.RealVal(0)] * 6 + [z3.RealVal(1)]

    def __enter__(self):
        self.rl, self.re = pp.LieTensor.Log, pp.LieTensor.Exp
        cut = self

        def Log(x):
            return cut.log(x)

        def Exp(x):
            return cut.exp(x)
        pp.LieTensor.Log, pp.LieTensor.Exp = Log, Exp
        return self

    def __exit__(self, *a):
        pp.LieTensor.Log, pp.LieTensor.Exp = self.rl, self.re

    def log(self, x):
        m = self.m
        xt = m.full_terms(x.tensor())
        n = len(xt) // 7
        out = torch.zeros(tuple(x.shape[:-1]) + (6,), dtype=x.dtype)
        terms = []
        for i in range(n):
            it = xt[7 * i:7 * i + 7]
            is_id = all(z3.simplify(a).eq(b) for a, b in zip(it, self.ident))
            if not is_id:
                # identity modulo the validity assumptions (e.g. Inv(P)@P): a small solver query
                s_ = z3.Solver()
                s_.set('timeout', 3000)
                s_.add(m.ctx.assume)
                s_.add(z3.Or([a != b for a, b in zip(it, self.ident)]))
                is_id = str(s_.check()) == 'unsat'
            if is_id:
                vs = [z3.RealVal(0)] * 6
            elif self.reuse is not None and len(self.logs) < len(self.reuse.logs):
                vs = self.reuse.logs[len(self.logs)][1]
            else:
                vs = [m.ctx.fresh('log%d_' % len(self.logs)) for _ in range(6)]
            self.logs.append((it, vs))
            terms += vs
        m.set_terms(out, terms)
        return pp.LieTensor(out, ltype=pp.se3_type)

    def exp(self, x):
        m = self.m
        xt = m.full_terms(x.tensor())
        n = len(xt) // 6
        out = torch.zeros(tuple(x.shape[:-1]) + (7,), dtype=x.dtype)
        out[..., 6] = 1
        terms = []
        for i in range(n):
            it = [z3.simplify(a) for a in xt[6 * i:6 * i + 6]]
            vs = None
            if all(z3.is_rational_value(a) and a.numerator_as_long() == 0 for a in it):
                vs = list(self.ident)
            else:
                for (inp, lv) in self.logs:
                    if all(a.eq(b) for a, b in zip(it, [z3.simplify(v) for v in lv])):
                        vs = list(inp)          # Exp(Log(X)) = X
                        break
            if vs is None:
                if self.reuse is not None and len(self.exps) < len(self.reuse.exps):
                    vs = self.reuse.exps[len(self.exps)][1]
                else:
                    vs = [m.ctx.fresh('exp%d_' % len(self.exps)) for _ in range(7)]
                    m.ctx.assume.append(T.dot(vs[3:7], vs[3:7]) == 1)
                self.exps.append((it, vs))
            terms += vs
        m.set_terms(out, terms)
        return pp.LieTensor(out, ltype=pp.SE3_type)


def case_bspline(H, N, interval, extrapolate):
    name = 'C19/bspline/N=%d/interval=%s/extrapolate=%s' % (N, interval, extrapolate)

    def prog(m):
        P = rand_group('SE3', 500, shape=(N,))
        ps = m.symbolic(P, 'p')
        for i in range(N):
            m.ctx.assume += valid('SE3', ps[7 * i:7 * i + 7])
        Tg, ts = sym_group(m, 'SE3', 't', 501)
        with LogExpCut(m) as c1:
            out1 = pp.bspline(P, interval, extrapolate)
            o1 = m.full_terms(out1.tensor())
        TP = Tg @ P
        with LogExpCut(m, reuse=c1) as c2:
            out2 = pp.bspline(TP, interval, extrapolate)
            o2 = m.full_terms(out2.tensor())
        return o1, o2, tuple(out1.shape), c1, c2, ps, ts

    def replay(model):
        torch.manual_seed(3)
        P = pp.randn_SE3(N, dtype=DT)
        Tg = pp.randn_SE3(dtype=DT)
        a = pp.bspline(P, interval, extrapolate)
        b = pp.bspline(Tg @ P, interval, extrapolate)
        e = ((Tg @ a).matrix() - b.matrix()).abs().max().item()
        msg = 'left-equivariance error %.3g' % e
        bad = e > 1e-8
        if extrapolate:
            e2 = max((a[0].matrix() - P[0].matrix()).abs().max().item(), (a[-1].matrix() - P[-1].matrix()).abs().max().item())
            bad = bad or e2 > 1e-8
            msg += ', end-point error %.3g' % e2
        # constant-twist motion sampled at the right times (numeric confirmation of the sampling schedule)
        xi = torch.tensor([0.3, -0.2, 0.1, 0.05, 0.1, -0.07], dtype=DT)
        Q = torch.stack([(pp.se3(xi * i).Exp()).tensor() for i in range(6)])
        Qs = pp.bspline(pp.SE3(Q), interval)
        kk = len(torch.arange(0, 1, interval))
        worst = 0.0
        for seg in range(3):
            for j in range(kk):
                tt = 1 + seg + j * interval
                ref = pp.se3(xi * tt).Exp()
                worst = max(worst, (Qs[seg * kk + j].matrix() - ref.matrix()).abs().max().item())
        bad = bad or worst > 1e-7
        msg += ', constant-twist sampling error %.3g' % worst
        return bad, 'bspline: ' + msg

    for ctx, (o1, o2, shape, c1, c2, ps, ts) in run_paths(H, name, prog, max_paths=4):
        hyp = H.hyps_of(ctx)
        rels = [unit_rel('SE3', ts)] + [unit_rel('SE3', ps[7 * i:7 * i + 7]) for i in range(N)] + \
               [T.dot(v[3:7], v[3:7]) - 1 for (_, v) in c1.exps]
        # (i) the relative poses handed to Log are unchanged by the left multiplication
        ok_struct = len(c1.logs) == len(c2.logs) and len(c1.exps) == len(c2.exps)
        H.prove(name + '/same-call-structure', [], z3.BoolVal(ok_struct), replay=replay, key='C19/bspline/equivariance')
        if not ok_struct:
            continue
        for k, ((i1, _), (i2, _)) in enumerate(zip(c1.logs, c2.logs)):
            for j in range(7):
                H.certify('%s/relative-pose-invariant[%d][%d]' % (name, k, j), i2[j], i1[j], rels, hyps=hyp, replay=replay, key='C19/bspline/equivariance')
        # (ii) hence (same Log outputs, same Exp inputs -> same Exp outputs) every output is left-multiplied
        for k, ((e1, _), (e2, _)) in enumerate(zip(c1.exps, c2.exps)):
            H.prove('%s/exp-inputs-equal[%d]' % (name, k), [], z3.And([a == b for a, b in zip(e1, e2)]), replay=replay, key='C19/bspline/equivariance')
        M = len(o1) // 7
        for s in range(M):
            want = gmul('SE3', ts, o1[7 * s:7 * s + 7])
            for j in range(7):
                H.certify('%s/output[%d][%d]==T@output' % (name, s, j), o2[7 * s + j], want[j], rels, hyps=hyp, replay=replay, key='C19/bspline/equivariance')
        # (iii) sampling schedule: the weights multiplying the relative twists are B [1,u,u^2,u^3] at u = m * interval
        kk = len(torch.arange(0, 1, interval))
        Bm = [[5, 3, -3, 1], [1, 3, 3, -2], [0, 0, 0, 1]]
        us = [rat(float(v)) for v in torch.arange(0, 1, interval, dtype=DT).tolist()]
        logvars = {}
        for (_, lv) in c1.logs:
            for v in lv:
                if not z3.is_rational_value(v):
                    logvars[str(v)] = v
        sched_ok = True
        detail = ''
        from symx.terms import diff
        for (inp, _) in c1.exps:
            # each Exp input is w * (one Log output): recover w as the derivative w.r.t. that variable
            for comp in inp:
                fv = {}
                from symx.terms import free_vars
                free_vars(comp, fv, set())
                names = [n for n in fv if n in logvars]
                if len(names) != 1:
                    continue
                w = z3.simplify(diff(comp, logvars[names[0]]))
                if not z3.is_rational_value(w):
                    sched_ok, detail = False, 'non-constant weight %s' % w
                    continue
                wv = w.numerator_as_long() / w.denominator_as_long()
                allowed = [sum(Bm[r][p] * (float(u.numerator_as_long()) / u.denominator_as_long()) ** p for p in range(4)) / 6 for r in range(3) for u in us]
                allowed += [1.0, 5.0 / 6.0, 1.0 / 6.0]
                if min(abs(wv - a_) for a_ in allowed) > 1e-12:
                    sched_ok, detail = False, 'weight %.6g is not B[1,u,u^2,u^3]/6 at any u = m*%s' % (wv, interval)
        H.prove(name + '/sampling-weights-at-multiples-of-interval', [], z3.BoolVal(sched_ok), key='C19/bspline/sampling',
                replay=lambda model: (replay(model)[0], 'sampling schedule: %s; %s' % (detail, replay(model)[1])))
        H.prove(name + '/sample-count', [], z3.BoolVal(M == ((N + (4 if extrapolate else 0)) - 3) * kk + 1), replay=replay, key='C19/bspline/sampling')
        if extrapolate:
            for j in range(7):
                H.certify('%s/starts-at-first-pose[%d]' % (name, j), o1[j], ps[j], rels, hyps=hyp, replay=replay, key='C19/bspline/endpoints')
                H.certify('%s/ends-at-last-pose[%d]' % (name, j), o1[7 * (M - 1) + j], ps[7 * (N - 1) + j], rels, hyps=hyp, replay=replay, key='C19/bspline/endpoints')


# ------------------------------------------------------------------------------------------------ ape / rpe
def case_metrics(H, N):
    name = 'C19/ape-rpe/N=%d' % N

    def prog(m):
        R = rand_group('SE3', 510, shape=(N,))
        E = rand_group('SE3', 511, shape=(N,))
        rs, es = m.symbolic(R, 'r'), m.symbolic(E, 'e')
        for i in range(N):
            m.ctx.assume += valid('SE3', rs[7 * i:7 * i + 7]) + valid('SE3', es[7 * i:7 * i + 7])
        Tg, ts = sym_group(m, 'SE3', 't', 512)
        st = torch.arange(N, dtype=torch.float64)
        keys = ['Max', 'RMSE', 'Mean', 'Min']
        res, marks = {}, {}

        def call(tag, f):
            n0 = len(m.ctx.tf)
            res[tag] = f()
            marks[tag] = [(v, a) for (fn, _), (v, a) in list(m.ctx.tf.items())[n0:] if fn == 'sqrt']
        # history: an earlier call with origin alignment must not leak into later plain calls
        pp.metric.ape(st.clone(), R, st.clone(), E, etype='translation', origin=True)
        pp.metric.rpe(st.clone(), R, st.clone(), E, etype='translation', origin=True)
        call('ape_same', lambda: pp.metric.ape(st.clone(), R, st.clone(), R.clone(), etype='translation'))
        call('rpe_same', lambda: pp.metric.rpe(st.clone(), R, st.clone(), R.clone(), etype='translation'))
        call('rpe', lambda: pp.metric.rpe(st.clone(), R, st.clone(), E, etype='translation'))
        call('rpe_Tref', lambda: pp.metric.rpe(st.clone(), Tg @ R, st.clone(), E, etype='translation'))
        call('rpe_Test', lambda: pp.metric.rpe(st.clone(), R, st.clone(), Tg @ E, etype='translation'))
        call('ape', lambda: pp.metric.ape(st.clone(), R, st.clone(), E, etype='translation'))
        out = {k: {kk: m.full_terms(v[kk])[0] for kk in keys + ['SSE']} for k, v in res.items()}
        return out, rs, es, ts, marks

    def replay(model):
        torch.manual_seed(5)
        R, E, Tg = pp.randn_SE3(N, dtype=DT), pp.randn_SE3(N, dtype=DT), pp.randn_SE3(dtype=DT)
        st = torch.arange(N, dtype=torch.float64)
        a = pp.metric.rpe(st.clone(), R, st.clone(), E)
        b = pp.metric.rpe(st.clone(), Tg @ R, st.clone(), E)
        c = pp.metric.rpe(st.clone(), R, st.clone(), Tg @ E)
        pp.metric.ape(st.clone(), R, st.clone(), E, origin=True)
        pp.metric.rpe(st.clone(), R, st.clone(), E, origin=True)
        z = pp.metric.ape(st.clone(), R, st.clone(), R.clone())
        zz = pp.metric.rpe(st.clone(), R, st.clone(), R.clone())
        e = max(abs(a[k].item() - b[k].item()) + abs(a[k].item() - c[k].item()) for k in ('Max', 'RMSE', 'Mean', 'Min'))
        zero = max(abs(z[k].item()) + abs(zz[k].item()) for k in ('Max', 'RMSE', 'Mean', 'Min'))
        order = all(v['Max'] >= v['RMSE'] - 1e-12 >= v['Mean'] - 2e-12 >= v['Min'] - 3e-12 >= -1e-12 for v in (a, pp.metric.ape(st.clone(), R, st.clone(), E)))
        return e > 1e-8 or zero > 1e-9 or not order, 'rpe left-invariance error %.3g, identical-trajectory statistics %.3g, ordering ok: %s' % (e, zero, order)

    for ctx, (out, rs, es, ts, marks) in run_paths(H, name, prog, max_paths=16, max_decisions=40, ctx_opts={'median_havoc': True}):
        hyp = H.hyps_of(ctx, pairs=False)
        pn = H.paths
        to = 30 if H.quick else 120
        for k in ('Max', 'RMSE', 'Mean', 'Min'):
            H.prove('%s/path%d/identical-trajectories/ape.%s==0' % (name, pn, k), hyp, out['ape_same'][k] == 0, replay=replay, key='C19/metric/zero', timeout=to)
            H.prove('%s/path%d/identical-trajectories/rpe.%s==0' % (name, pn, k), hyp, out['rpe_same'][k] == 0, replay=replay, key='C19/metric/zero', timeout=to)
        # left invariance of rpe: every per-pair squared error term is invariant (polynomial certificates modulo the unit norms); all
        # statistics are functions of the per-pair errors.  The k-th error norm of the transformed run is matched with the k-th of the
        # plain run (same pairing logic, concrete indices).
        rels = [unit_rel('SE3', ts)] + [unit_rel('SE3', rs[7 * i:7 * i + 7]) for i in range(len(rs) // 7)] + [unit_rel('SE3', es[7 * i:7 * i + 7]) for i in range(len(es) // 7)]
        from symx.terms import free_vars

        def error_args(tag):
            outl = []
            for v, a in marks[tag]:
                fv = {}
                free_vars(a, fv, set())
                if not any(n.startswith('sqrt!') for n in fv):
                    outl.append(a)
            return outl
        base_args = error_args('rpe')
        for tag in ('rpe_Tref', 'rpe_Test'):
            args_ = error_args(tag)
            # identical canonical arguments share the abstraction variable: then nothing new was created (already syntactically invariant)
            H.prove('%s/path%d/%s/same-number-of-error-terms' % (name, pn, tag), [], z3.BoolVal(len(args_) in (0, len(base_args))), replay=replay,
                    key='C19/metric/rpe-left-invariance')
            if len(args_) == len(base_args):
                for i_, (a2, a1) in enumerate(zip(args_, base_args)):
                    H.certify('%s/path%d/%s/squared-error[%d]-invariant' % (name, pn, tag, i_), a2, a1, rels, hyps=hyp, replay=replay,
                              key='C19/metric/rpe-left-invariance', timeout=to)
            H.certify('%s/path%d/%s/SSE-invariant' % (name, pn, tag), out[tag]['SSE'], out['rpe']['SSE'],
                      rels + [v * v - a for (v, a) in marks[tag] + marks['rpe']], hyps=hyp, replay=replay, key='C19/metric/rpe-left-invariance', timeout=to)
        # ordering of the statistics as a fact about any non-negative error vector: stated on the statistics' own terms with the
        # error norms opaque (only their definitions v >= 0 are used)
        for tag in ('ape', 'rpe'):
            o = out[tag]
            defs = [z3.And(v >= 0, v * v == a) for (v, a) in marks[tag]]
            H.prove('%s/path%d/%s/Max>=RMSE>=Mean>=Min>=0' % (name, pn, tag), defs + list(ctx.pc), z3.And(o['Max'] >= o['RMSE'], o['RMSE'] >= o['Mean'], o['Mean'] >= o['Min'], o['Min'] >= 0),
                    replay=replay, key='C19/metric/ordering', timeout=to)
        if pn % 4 == 0:
            H.reach('%s/path%d/reach' % (name, pn), hyp)


def case_metrics_jitter(H, N=3):
    """identical trajectories whose timestamps differ by a jitter below the association threshold, on a time grid DENSER than the
    threshold (several reference stamps inside the tolerance window): each pose must be associated with its nearest stamp, so every
    ape / rpe statistic is zero"""
    name = 'C19/ape-rpe/jitter/N=%d' % N
    spacing, diff_ = 0.004, 0.01
    keys = ['Max', 'RMSE', 'Mean', 'Min']
    R0 = rand_group('SE3', 530, shape=(N,))

    def stamps(j):
        return torch.arange(N, dtype=torch.float64) * spacing + j

    def prog(m):
        m.ctx.minmax_decide = True
        j = torch.zeros(N, dtype=torch.float64)
        js = m.symbolic(j, 'j')
        m.ctx.assume += [z3.And(x > -z3.RealVal('15/10000'), x < z3.RealVal('15/10000')) for x in js]     # |jitter| < spacing/2 < diff
        R = R0.clone()
        a = pp.metric.ape(stamps(0.0), R, stamps(0.0) + j, R.clone(), etype='translation', diff=diff_)
        r = pp.metric.rpe(stamps(0.0), R, stamps(0.0) + j, R.clone(), etype='translation', diff=diff_)
        return {k: m.full_terms(a[k])[0] for k in keys}, {k: m.full_terms(r[k])[0] for k in keys}, js

    def replay(model):
        worst, wj = 0.0, None
        j0 = torch.tensor([float(model.get('j%d' % i, 0.0)) for i in range(N)], dtype=torch.float64)
        for jj in (j0, j0 * 0.5, torch.full((N,), 0.0012, dtype=torch.float64), torch.full((N,), -0.0012, dtype=torch.float64),
                   torch.tensor([0.0012, -0.0012, 0.0007][:N], dtype=torch.float64)):
            jj = jj.clamp(-0.00149, 0.00149)
            a = pp.metric.ape(stamps(0.0), R0.clone(), stamps(0.0) + jj, R0.clone(), etype='translation', diff=diff_)
            r = pp.metric.rpe(stamps(0.0), R0.clone(), stamps(0.0) + jj, R0.clone(), etype='translation', diff=diff_)
            z = max(abs(float(a[k])) + abs(float(r[k])) for k in keys)
            if z > worst:
                worst, wj = z, jj.tolist()
        return worst > 1e-9, ('identical trajectories, stamps %s + jitter %s (threshold %s): ape/rpe statistics are not zero (sum of |stat| up to %.3g): '
                              'a pose was associated with a stamp that is not the nearest' % (stamps(0.0).tolist(), wj, diff_, worst))

    def on_raise(ctx, e):
        H.absorb(ctx)
        H.prove('%s/raising-path%d-infeasible' % (name, H.paths), H.hyps_of(ctx), z3.BoolVal(False), replay=replay, key='C19/metric/zero', timeout=20)

    for ctx, (a, r, js) in run_paths(H, name, prog, max_paths=32, max_decisions=60, raised=on_raise):
        hyp = H.hyps_of(ctx, pairs=False)
        pn = H.paths
        for k in keys:
            H.prove('%s/path%d/ape.%s==0' % (name, pn, k), hyp, a[k] == 0, replay=replay, key='C19/metric/zero', timeout=20)
            H.prove('%s/path%d/rpe.%s==0' % (name, pn, k), hyp, r[k] == 0, replay=replay, key='C19/metric/zero', timeout=20)
        if pn % 4 == 0:
            H.reach('%s/path%d/reach' % (name, pn), hyp)


# ------------------------------------------------------------------------------------------------ geodesic loss
def case_rpe_distance(H, N=4):
    """rpe with associate='distance': pairs are selected by the path length travelled along the estimate, which a fixed translation of
    that trajectory does not change.  Translations are concrete (so every pairing decision is concrete), rotations symbolic."""
    name = 'C19/rpe-distance-pairing/N=%d' % N
    from symx.terms import free_vars
    tr = torch.tensor([[0.5 + 0.75 * i, 0.0, 0.0] for i in range(N)], dtype=DT)
    te = torch.tensor([[0.25 + 0.75 * i, 0.0, 0.0] for i in range(N)], dtype=DT)
    shift = torch.tensor([5.0, -3.0, 2.0, 0.0, 0.0, 0.0, 1.0], dtype=DT)

    def prog(m):
        qr, qe = rand_group('SO3', 520, shape=(N,)), rand_group('SO3', 521, shape=(N,))
        rs, es = m.symbolic(qr, 'r'), m.symbolic(qe, 'e')
        for i in range(N):
            m.ctx.assume += valid('SO3', rs[4 * i:4 * i + 4]) + valid('SO3', es[4 * i:4 * i + 4])
        R = pp.SE3(torch.cat([tr, qr.tensor()], -1))
        E = pp.SE3(torch.cat([te, qe.tensor()], -1))
        Tg = pp.SE3(shift.clone())
        st = torch.arange(N, dtype=torch.float64)

        def errs(n0):
            outl = []
            for (fn, _), (v, x) in list(m.ctx.tf.items())[n0:]:
                fv = {}
                free_vars(x, fv, set())
                if fn == 'sqrt' and not any(n.startswith('sqrt!') for n in fv):
                    outl.append((v, x))
            return outl
        n0 = len(m.ctx.tf)
        pp.metric.rpe(st.clone(), R, st.clone(), E, etype='translation', associate='distance', delta=0.5)
        ma = errs(n0)
        n1 = len(m.ctx.tf)
        pp.metric.rpe(st.clone(), R, st.clone(), Tg @ E, etype='translation', associate='distance', delta=0.5)
        mb = errs(n1)
        return rs, es, ma, mb

    def replay(model):
        torch.manual_seed(6)
        R = pp.SE3(torch.cat([tr, pp.randn_SO3(N, dtype=DT).tensor()], -1))
        E = pp.SE3(torch.cat([te, pp.randn_SO3(N, dtype=DT).tensor()], -1))
        st = torch.arange(N, dtype=torch.float64)
        a = pp.metric.rpe(st.clone(), R, st.clone(), E, associate='distance', delta=0.5)
        b = pp.metric.rpe(st.clone(), R, st.clone(), pp.SE3(shift.clone()) @ E, associate='distance', delta=0.5)
        e = max(abs(a[k].item() - b[k].item()) for k in ('Max', 'RMSE', 'Mean', 'Min'))
        return e > 1e-8, 'rpe(associate=distance) changes by %.3g when the estimate is translated by a fixed pose' % e

    for ctx, (rs, es, ma, mb) in run_paths(H, name, prog, max_paths=4, max_decisions=40, ctx_opts={'median_havoc': True}):
        hyp = H.hyps_of(ctx, pairs=False)
        rels = [unit_rel('SO3', rs[4 * i:4 * i + 4]) for i in range(N)] + [unit_rel('SO3', es[4 * i:4 * i + 4]) for i in range(N)]
        to = 60 if H.quick else 240
        # the shifted call either re-uses the plain call's error norms (no new sqrt terms) or creates one per pair of the plain call
        H.prove('%s/path%d/same-number-of-pairs' % (name, H.paths), [], z3.BoolVal(len(mb) in (0, len(ma))), replay=replay,
                key='C19/metric/rpe-left-invariance')
        if len(mb) == len(ma):
            for i_, ((_, x2), (_, x1)) in enumerate(zip(mb, ma)):
                H.certify('%s/path%d/squared-error[%d]-invariant' % (name, H.paths, i_), x2, x1, rels, hyps=hyp, replay=replay,
                          key='C19/metric/rpe-left-invariance', timeout=to)
        H.reach('%s/path%d/reach' % (name, H.paths), hyp)


def case_geodesic(H, g):
    name = 'C19/geodesic_loss/%s' % g

    def prog(m):
        X, xs = sym_group(m, g, 'x', 520)
        Y, ys = sym_group(m, g, 'y', 521)
        t, q, s = parts(g, xs)
        a = pp.geodesic_loss(X, Y, reduction='none')
        b = pp.geodesic_loss(Y, X, reduction='none')
        Xb = torch.stack([X.tensor(), Y.tensor()])
        Yb = torch.stack([Y.tensor(), Y.tensor()])
        XB, YB = pp.LieTensor(Xb, ltype=GTYPE[g]), pp.LieTensor(Yb, ltype=GTYPE[g])
        n_ = pp.geodesic_loss(XB, YB, reduction='none')
        me = pp.geodesic_loss(XB, YB, reduction='mean')
        su = pp.geodesic_loss(XB, YB, reduction='sum')
        mod = pp.module.GeodesicLoss(reduction='sum')(XB, YB)
        return m.full_terms(a)[0], m.full_terms(b)[0], m.full_terms(n_), m.full_terms(me)[0], m.full_terms(su)[0], m.full_terms(mod)[0], xs, ys

    def replay(model):
        torch.manual_seed(7)
        X, Y = RANDN[g](dtype=DT), RANDN[g](dtype=DT)
        if model and any(k.startswith('x') for k in model):
            X = pp.LieTensor(normalize_group(g, tensor_from_env(['x%d' % i for i in range(GDIM[g])], model)), ltype=GTYPE[g])
            Y = pp.LieTensor(normalize_group(g, tensor_from_env(['y%d' % i for i in range(GDIM[g])], model)), ltype=GTYPE[g])
        a, b = pp.geodesic_loss(X, Y, 'none').item(), pp.geodesic_loss(Y, X, 'none').item()
        Rm = (X.rotation().matrix() @ Y.rotation().matrix().T)
        ang = torch.acos(((Rm.trace() - 1) / 2).clamp(-1, 1)).item()
        # (angle from the relative quaternion: 2 atan2(|v|, |w|), accurate at small angles too)
        qr = (X.rotation() @ Y.rotation().Inv()).tensor()
        ang2 = 2 * torch.atan2(qr[:3].norm(), qr[3].abs()).item()
        bad = abs(a - b) > 1e-9 or abs(a - ang) > 1e-7 or abs(a - ang2) > 1e-9 * (1 + ang2) + 1e-12 or not (0 <= a <= 3.1415927)
        return bad, 'geodesic_loss %.12g vs %.12g (swapped) vs rotation angle %.12g at X=%s Y=%s' % (a, b, ang2, X.tolist(), Y.tolist())

    for ctx, (a, b, n_, me, su, mod, xs, ys) in run_paths(H, name, prog, max_paths=32, max_decisions=40, ctx_opts={'split_bool_casts': True}):
        hyp = H.hyps_of(ctx)
        pn = H.paths
        to = 25 if H.quick else 120
        H.prove('%s/path%d/symmetric' % (name, pn), hyp, a == b, replay=replay, key='C19/geodesic', timeout=to)
        H.prove('%s/path%d/in[0,pi]' % (name, pn), hyp, z3.And(a >= 0, a <= PI), replay=replay, key='C19/geodesic', timeout=to)
        H.prove('%s/path%d/reductions' % (name, pn), hyp, z3.And(su == n_[0] + n_[1], me == (n_[0] + n_[1]) / 2, mod == su, n_[0] == a), replay=replay,
                key='C19/geodesic', timeout=to)


def case_geodesic_angle(H, g):
    """geodesic_loss(X, identity) IS the rotation angle of X: the theta in [0, pi] with cos(theta/2) = |w|.  (Against a fixed second
    argument the relative rotation is X itself, which keeps the terms small enough for the staged proof; that the loss depends on
    x * y^-1 only is visible in the symmetric / reduction obligations of the two-argument case.)"""
    name = 'C19/geodesic_loss/%s/angle' % g

    def prog(m):
        X, xs = sym_group(m, g, 'x', 522)
        I = pp.identity_like(X, dtype=DT)
        a = pp.geodesic_loss(X, I, reduction='none')
        at = m.full_terms(a)[0]
        m.ctx.tfun('sin', at / 2), m.ctx.tfun('cos', at / 2)
        return at, xs

    def replay(model):
        X = pp.LieTensor(normalize_group(g, tensor_from_env(['x%d' % i for i in range(GDIM[g])], model)), ltype=GTYPE[g])
        worst, wx = 0.0, None
        qi = {'SO3': 0, 'SE3': 3, 'RxSO3': 0, 'Sim3': 3}[g]
        for f in (1.0, 0.5, 0.1, 1e-2, 1e-3, 1e-4):
            xv = X.tensor().clone()
            xv[qi:qi + 3] = xv[qi:qi + 3] * f            # same axis, smaller angles (the solver's point is arbitrary inside its branch)
            Xf = pp.LieTensor(normalize_group(g, xv), ltype=GTYPE[g])
            a = pp.geodesic_loss(Xf, pp.identity_like(Xf, dtype=DT), "none").item()
            q = Xf.rotation().tensor()
            ang = 2 * torch.atan2(q[:3].norm(), q[3].abs()).item()
            e = abs(a - ang) / (1e-300 + ang) if ang > 0 else abs(a)
            if e > worst:
                worst, wx = e, (a, ang, Xf.tolist())
        return worst > 1e-7, 'geodesic_loss(X, I) = %.12g but the rotation angle of X is %.12g (X=%s)' % (wx if wx else (0, 0, None))

    for ctx, (a, xs) in run_paths(H, name, prog, max_paths=16, max_decisions=40, ctx_opts={'split_bool_casts': True}):
        hyp = H.hyps_of(ctx)
        pn = H.paths
        to = 25 if H.quick else 120
        tx, qx, sx = parts(g, xs)
        wabs = z3.If(qx[3] >= 0, qx[3], -qx[3])
        ch = ctx.tfun('cos', a / 2)
        from .jac import small_regime_deep as small_regime
        fams = quat_log_families(ctx)
        H.prove('%s/path%d/in[0,pi]' % (name, pn), hyp, z3.And(a >= 0, a <= PI), replay=replay, key='C19/geodesic', timeout=to)
        if fams and not small_regime(ctx):
            for sign, tag in ((1, 'w>0'), (-1, 'w<0')):
                case, lem = quat_log_lemmas(ctx, sign)
                hy, lobs, _t = H.chain('%s/path%d/%s' % (name, pn, tag), hyp + case, lem, replay=replay, key='C19/geodesic', timeout=2 * to)
                H.prove('%s/path%d/%s/cos(loss/2)==|w|' % (name, pn, tag), hy, ch == wabs, replay=replay, key='C19/geodesic', depends=lobs,
                        timeout=2 * to, strategies=('default', 'nlsat'))
        elif small_regime(ctx):
            d = ch - wabs
            tol = z3.RealVal('1/100000000000000')
            H.prove('%s/path%d/cos(loss/2)==|w|/small-regime' % (name, pn), hyp, z3.And(d <= tol, d >= -tol), replay=replay, key='C19/geodesic', timeout=to)
        else:
            d = ch - wabs
            H.prove('%s/path%d/cos(loss/2)==|w|' % (name, pn), hyp, ch == wabs, replay=replay, key='C19/geodesic', timeout=to,
                    neg_margin=[z3.Or(d > z3.RealVal(mg), d < -z3.RealVal(mg)) for mg in ('1/1000', '1/10000000', '1/100000000000')])


def run(H):
    H.assumptions += ['exact real arithmetic', 'valid poses', 'SE3 Log/Exp inside bspline are contract stubs (C01/C02) honouring Log(I)=0, Exp(0)=I, Exp(Log X)=X',
                      'ape/rpe: exactly matching timestamps, and (jitter case) stamps on a 4 ms grid with |jitter| < 1.5 ms under a 10 ms threshold']
    H.bounds += ['chspline: N in 2..4 (thorough 6), intervals {0.5, 0.25, 0.3}, C in {1,2}', 'bspline: N=4 poses (thorough 5), intervals {0.5, 0.3}',
                 'ape/rpe: 3 poses (thorough 4), translation error type', 'rpe(associate=distance): 4 poses (thorough also 6) with concrete collinear translations (all pairing decisions concrete), symbolic rotations, concrete translation of the estimate', 'geodesic loss: SO3 (quick), SE3 (thorough)']
    jobs = []
    for N, itv, C in ([(2, 0.5, 1), (3, 0.25, 2), (4, 0.3, 1)] if H.quick else [(2, 0.5, 1), (3, 0.25, 2), (4, 0.3, 1), (5, 0.1, 2), (6, 0.4, 1)]):
        jobs.append(lambda N=N, i=itv, C=C: case_chspline(H, N, i, C))
    jobs.append(lambda: case_bspline(H, 4, 0.5, False))
    jobs.append(lambda: case_bspline(H, 4, 0.3, False))
    jobs.append(lambda: case_bspline(H, 2, 0.5, True))
    jobs.append(lambda: case_metrics(H, 3))
    jobs.append(lambda: case_metrics_jitter(H, 3))
    jobs.append(lambda: case_geodesic(H, 'SO3'))
    jobs.append(lambda: case_geodesic_angle(H, 'SO3'))
    jobs.append(lambda: case_rpe_distance(H, 4))
    if not H.quick:
        jobs.append(lambda: case_bspline(H, 5, 0.4, False))
        jobs.append(lambda: case_bspline(H, 3, 0.3, True))
        jobs.append(lambda: case_metrics(H, 4))
        jobs.append(lambda: case_geodesic(H, 'SE3'))
        jobs.append(lambda: case_geodesic_angle(H, 'SE3'))
        jobs.append(lambda: case_rpe_distance(H, 6))
    only = getattr(H, 'only', None)
    if only:
        jobs = {'geodesic': jobs[8:10], 'metrics': jobs[6:7], 'jitter': jobs[7:8], 'bspline': jobs[3:6], 'chspline': jobs[:3], 'rpedist': jobs[10:11]}.get(only, jobs)
    for j in jobs:
        try:
            j()
        except Exception as e:
            import traceback; traceback.print_exc()
            H.engine_error('c19', e)
    return H.finish(explanation=EXPLAIN)
