"""C12 - cumulative products equal the sequential fold for every length, dim, order (free monoid)."""
import itertools

import torch
import z3

import pypose as pp
from symx import terms as T
from symx.engine import SymMode, Ctx, Unsupported
from .common import *

EXPLAIN = ("pp.cumops/cummul/cumprod (+ in-place, + LieTensor methods) run under the symx engine on tensors whose items "
           "are symbolic elements of the FREE MONOID (z3 sequence variables; the user operation is concatenation, the "
           "most general associative non-commutative operation), so the index schedule of the doubling scan is checked "
           "for all item values at once: out[i] == x_1 ++ ... ++ x_i per element is a solver obligation. Lengths, "
           "dims and orders are enumerated (they are shapes). LieTensor variants use symbolic quaternions and the "
           "Hamilton-product fold as oracle. Exceptions for a legal length are violations.")

SEQ = z3.SeqSort(z3.IntSort())


P = z3.Function('P', z3.IntSort(), z3.IntSort(), SEQ)        # P(i,j) = x_i ++ ... ++ x_j  (contiguous product)
CAT = z3.Function('Cat', SEQ, SEQ, SEQ)                        # a product the range algebra cannot normalise


def _view(x, kind, dim):
    """the tensor actually handed to the API: a (possibly non-contiguous) view whose logical shape is `shape`"""
    if kind == 'contig':
        return x
    if kind == 'transposed':      # x was allocated with the last two dims swapped
        return x.transpose(-1, -2)
    if kind == 'strided':         # every second element along the last dim of a larger buffer
        return x[..., ::2]
    if kind == 'colblock':        # a column block of a larger buffer
        return x[..., 1:1 + (x.shape[-1] - 2)]
    raise ValueError(kind)


def _alloc(shape, kind):
    shape = tuple(shape)
    if kind == 'contig':
        return torch.zeros(shape, dtype=DT)
    if kind == 'transposed':
        return torch.zeros(shape[:-2] + (shape[-1], shape[-2]), dtype=DT)
    if kind == 'strided':
        return torch.zeros(shape[:-1] + (2 * shape[-1],), dtype=DT)
    if kind == 'colblock':
        return torch.zeros(shape[:-1] + (shape[-1] + 2,), dtype=DT)


def _concrete_fold_check(L, shape, dim, left, api, kind='contig'):
    """replay on the real code without the engine: 2x2 integer matrices as a concrete non-commutative monoid
    (the matrix entries live in two extra leading dims so that the scanned tensor keeps its view structure)"""
    gen = torch.Generator().manual_seed(L * 7 + dim)
    nd = len(shape)
    d = dim % nd
    K = 5   # items are 5x5 permutation matrices (the group S5: finite, non-commutative, exact in floating point)
    if kind == 'contig':
        store = torch.zeros(tuple(shape) + (K, K), dtype=torch.float64)
        inp = store
    else:
        base = _alloc(shape, kind)
        store = torch.zeros((K, K) + tuple(base.shape), dtype=torch.float64)
        inp = _view(store, kind, d).movedim(0, -1).movedim(0, -1)   # logical shape + (K,K), non-contiguous
    flat_n = 1
    for s_ in shape:
        flat_n *= s_
    perms = torch.stack([torch.eye(K, dtype=torch.float64)[torch.randperm(K, generator=gen)] for _ in range(flat_n)])
    inp.copy_(perms.view(tuple(shape) + (K, K)))
    ref = inp.clone()

    def ops(a, b):
        return a @ b
    try:
        if api == 'cumops':
            y = pp.cumops(inp, d, ops)
        elif api == 'cumops_':
            y = pp.cumops_(inp, d, ops)
        else:
            return False, 'no concrete replay for %s' % api
    except Exception as e:
        return True, 'raises %s: %s' % (type(e).__name__, str(e)[:100])
    xm = ref.movedim(d, 0)
    ym = y.movedim(d, 0)
    acc = xm[0]
    for i in range(L):
        if i:
            acc = acc @ xm[i]
        if not torch.equal(acc, ym[i]):
            return True, 'position %d differs from the sequential fold' % i
    if api == 'cumops' and not torch.equal(inp, ref):
        return True, 'out-of-place variant modified its input'
    if api == 'cumops_' and not torch.equal(inp, y):
        return True, 'in-place variant did not overwrite the tensor it was given'
    return False, 'agrees'


def free_monoid_case(H, L, shape, dim, api, left, kind='contig', algebra='seq'):
    """shape: full tensor shape with shape[dim] == L.  algebra 'seq': items are z3 sequence variables and the
    operation is z3 concatenation; 'range': items are generators x_i of the free monoid represented as P(i,i), the
    operation normalises adjacent contiguous products P(i,j)++P(j+1,k) -> P(i,k) and leaves every other product as an
    uninterpreted Cat(.,.) (in the free monoid such a product is NOT a contiguous product, so a stuck term refutes)."""
    name = 'C12/free/%s/L=%d/shape=%s/dim=%d/%s/%s' % (api, L, 'x'.join(map(str, shape)), dim, kind, algebra)
    if getattr(H, 'only', None) and H.only not in name:
        return
    ctx = Ctx()
    n = 1
    for s in shape:
        n *= s
    try:
        with SymMode(ctx) as m:
            buf = _alloc(shape, kind)
            x = _view(buf, kind, dim)
            assert tuple(x.shape) == tuple(shape), (x.shape, shape)
            lanes = torch.arange(n).view(shape).movedim(dim, 0).reshape(L, -1)     # [position, lane] -> flat id
            pos_of = {}
            for i in range(L):
                for c in range(lanes.shape[1]):
                    pos_of[lanes[i, c].item()] = (i, c)
            if algebra == 'seq':
                xs = [z3.Const('x%d' % i, SEQ) for i in range(n)]
            else:
                # lane c, position i  ->  generator index c*L + i ; P(k,k) is the generator itself
                xs = [P(z3.IntVal(pos_of[e][1] * L + pos_of[e][0]), z3.IntVal(pos_of[e][1] * L + pos_of[e][0])) for e in range(n)]
            m.write(x, xs)

            def cat(p, q):
                if algebra == 'seq':
                    return z3.Concat(p, q)
                if p.decl().eq(P) and q.decl().eq(P):
                    a, b = p.children()
                    c, d = q.children()
                    if b.as_long() + 1 == c.as_long():
                        return P(a, d)
                return CAT(p, q)

            def ops(a, b):
                ta, tb = m.terms(a), m.terms(b)
                out = torch.zeros(a.shape, dtype=a.dtype)
                m.write(out, [cat(p, q) for p, q in zip(ta, tb)])
                return out

            if api == 'cumops':
                y = pp.cumops(x, dim, ops)
            elif api == 'cumops_':
                y = pp.cumops_(x, dim, ops)
            yt = m.terms(y)
            xt_after = m.terms(x)
        H.absorb(ctx)
    except Unsupported as e:
        H.engine_error(name, e)
        return
    except Exception as e:
        ok, det = _concrete_fold_check(L, shape, dim, left, api, kind)
        if ok:
            H.violation('C12/raises/%s' % api, '%s raised %s: %s (replay: %s)' % (name, type(e).__name__, str(e)[:120], det),
                        {'L': L, 'shape': list(shape), 'dim': dim, 'api': api, 'view': kind})
        else:
            H.engine_error(name, e)
        return
    goals = []
    for c in range(lanes.shape[1]):
        acc = None
        for i in range(L):
            e = lanes[i, c].item()
            if algebra == 'seq':
                acc = xs[e] if acc is None else z3.Concat(acc, xs[e])
            else:
                acc = P(z3.IntVal(c * L), z3.IntVal(c * L + i))
            goals.append((e, acc))
    rp = lambda model: _concrete_fold_check(L, shape, dim, left, api, kind)
    if all(t is not None for t in yt):
        g = z3.And([yt[e] == acc for e, acc in goals])
    else:
        g = z3.BoolVal(False)
    H.prove(name, [], g, replay=rp, key='C12/fold/%s' % api, timeout=20)
    if api == 'cumops':
        untouched = z3.And([z3.BoolVal(a is not None and a.eq(b)) for a, b in zip(xt_after, xs)])
        H.prove(name + '/input_untouched', [], untouched, replay=rp, key='C12/input-untouched')
    else:
        same = z3.And([z3.BoolVal(a is not None and b is not None and a.eq(b)) for a, b in zip(xt_after, yt)])
        H.prove(name + '/inplace_overwrites', [], same, replay=rp, key='C12/inplace')


def lie_case(H, g, L, api, left, method, lshape=None, dim=0, unit=True):
    """LieTensor cumprod/cummul(+_) with symbolic group elements vs the ordered group-product fold.
    lshape/dim: batch shape of the LieTensor and the (possibly negative) dimension scanned, lshape[dim] == L;
    unit=False: the quaternion parts are arbitrary (SO3 / RxSO3 products are associative for any quaternion, and "exactly the
    ordered product" leaves no room for a re-normalisation)"""
    lshape = (L,) if lshape is None else tuple(lshape)
    ax = dim if dim >= 0 else dim + 1          # negative dims count the parameter axis too
    assert lshape[ax] == L
    name = 'C12/lie/%s/%s/L=%d/left=%s/%s' % (g, api, L, left, 'method' if method else 'function')
    if lshape != (L,) or dim != 0:
        name += '/lshape=%s/dim=%d' % ('x'.join(map(str, lshape)), dim)
    if not unit:
        name += '/non-unit-quaternions'
    if getattr(H, 'only', None) and H.only not in name:
        return
    nel = 1
    for s_ in lshape:
        nel *= s_
    ids = torch.arange(nel).view(lshape).movedim(ax, 0).reshape(L, -1)      # [position, lane] -> flat element id

    def prog(m):
        X = rand_group(g, 40 + L, shape=lshape)
        if not unit:
            X = pp.LieTensor(X.tensor() * (1 + 0.3 * torch.rand(lshape + (1,), dtype=X.dtype, generator=torch.Generator().manual_seed(5))), ltype=X.ltype)
        xs = m.symbolic(X, 'x')
        for i in range(nel):
            if unit:
                m.ctx.assume += valid(g, xs[i * GDIM[g]:(i + 1) * GDIM[g]])
        inp = X.clone() if api.endswith('_') else X
        if method:
            Y = getattr(inp, api)(dim, left=left)
        else:
            Y = getattr(pp, api)(inp, dim, left=left)
        return m.full_terms(Y.tensor()), m.full_terms(inp.tensor()), xs, m, Y

    def replay(model):
        vals = tensor_from_env(['x%d' % i for i in range(nel * GDIM[g])], model)
        X = rand_group(g, 40 + L, shape=lshape)
        if not unit:
            X = pp.LieTensor(X.tensor() * (1 + 0.3 * torch.rand(lshape + (1,), dtype=X.dtype, generator=torch.Generator().manual_seed(5))), ltype=X.ltype)
        if float(vals.abs().sum()) != 0:
            X = pp.LieTensor(vals.view(lshape + (GDIM[g],)).to(X.dtype), ltype=X.ltype)
        inp = X.clone()
        try:
            Y = getattr(inp, api)(dim, left=left) if method else getattr(pp, api)(inp, dim, left=left)
        except Exception as e:
            return True, '%s(dim=%d) on lshape %s raised %s: %s' % (api, dim, lshape, type(e).__name__, str(e)[:100])
        if tuple(Y.shape) != tuple(X.shape):
            return True, 'result shape %s for input %s' % (tuple(Y.shape), tuple(X.shape))
        Xm, Ym = X.tensor().movedim(ax, 0), Y.tensor().movedim(ax, 0)
        item = lambda i: pp.LieTensor(Xm[i].contiguous(), ltype=X.ltype)
        worst = 0.0
        acc = item(0)
        for i in range(L):
            if i:
                acc = (item(i) @ acc) if left else (acc @ item(i))
            worst = max(worst, (Ym[i] - acc.tensor()).abs().max().item() / (1 + acc.tensor().abs().max().item()))
        return worst > 1e-9, '%s(dim=%d, left=%s) on %s of lshape %s differs from the ordered product along that dimension by %.3g (relative)' % (api, dim, left, g, lshape, worst)

    def on_raise(ctx, e):
        H.absorb(ctx)
        bad, det = replay({})
        if bad:
            H.violation('C12/raises/%s' % api, '%s: %s' % (name, det), {'group': g, 'L': L, 'api': api, 'lshape': list(lshape), 'dim': dim})
        else:
            H.engine_error(name, e)

    try:
        for ctx, (y, after, xs, m, Y) in run_paths(H, name, prog, raised=on_raise):
            selftest(H, ctx, m, [(y, Y.tensor())], name)
            n = GDIM[g]
            elem = lambda e: xs[e * n:(e + 1) * n]

            def gmul(a, b):
                ta, qa, sa = parts(g, a)
                tb, qb, sb = parts(g, b)
                q = T.quat_mul(qa, qb)
                out = []
                if ta is not None:
                    Rm = T.quat_rot(qa)
                    if sa is not None:
                        Rm = T.mscale(sa, Rm)
                    out += [u + v for u, v in zip(ta, T.mv(Rm, tb))]
                out += q
                if sa is not None:
                    out.append(sa * sb)
                return out
            want = {}
            for c in range(ids.shape[1]):
                items = [elem(ids[i, c].item()) for i in range(L)]
                acc = items[0]
                want[ids[0, c].item()] = acc
                for i in range(1, L):
                    acc = gmul(items[i], acc) if left else gmul(acc, items[i])
                    want[ids[i, c].item()] = acc
            flat_or = [t for e in range(nel) for t in want[e]]
            rels = [unit_rel(g, elem(e)) for e in range(nel)] if unit else []
            hyp = H.hyps_of(ctx)
            for i, (l, r) in enumerate(zip(y, flat_or)):
                H.certify('%s[%d]' % (name, i), l, r, rels, key='C12/lie/%s' % api, hyps=hyp, replay=replay)
            if api.endswith('_'):
                for i, (l, r) in enumerate(zip(after, y)):
                    H.prove('%s/inplace[%d]' % (name, i), [], l == r, key='C12/inplace')
            else:
                for i, (l, r) in enumerate(zip(after, xs)):
                    H.prove('%s/untouched[%d]' % (name, i), [], l == r, key='C12/input-untouched')
    except Exception as e:
        # an exception for a legal length is itself a violation if it reproduces without the engine
        try:
            X = rand_group(g, 40 + L, shape=lshape)
            getattr(pp, api)(X.clone(), dim, left=left)
            H.engine_error(name, e)
        except Exception as e2:
            H.violation('C12/raises/%s' % api, '%s raised %s: %s' % (name, type(e2).__name__, str(e2)[:120]),
                        {'group': g, 'L': L, 'api': api, 'lshape': list(lshape), 'dim': dim})


def matrix_case(H, L, api, left):
    """the wrappers on PLAIN tensors: cumprod(_) folds a stack of square matrices with the matrix product (`@`) and cummul(_) with the
    elementwise product (`*`), in the requested operand order.  Items are symbolic 2x2 real matrices (a non-commutative monoid under @)."""
    import pypose as pp
    from symx import terms as T
    from symx.engine import explore
    from .common import DT
    name = 'C12/matrix/%s/L=%d/left=%s' % (api, L, left)
    fn = getattr(pp, api)

    def fold(mats):
        acc, outs = None, []
        for Mk in mats:
            if acc is None:
                acc = Mk
            elif 'prod' in api:
                acc = T.mm(Mk, acc) if left else T.mm(acc, Mk)
            else:
                acc = [[Mk[i][j] * acc[i][j] for j in range(2)] for i in range(2)]
            outs.append(acc)
        return outs

    def prog(m):
        gen = torch.Generator().manual_seed(70 + L)
        x = torch.randn(L, 2, 2, dtype=DT, generator=gen)
        xs = m.symbolic(x, 'm')
        out = fn(x, 0, left=left)
        return m.full_terms(out), xs, (out.data_ptr() == x.data_ptr())

    def replay(model):
        x = torch.tensor([float(model.get('m%d' % i, 0.3 + 0.1 * i)) for i in range(L * 4)], dtype=DT).view(L, 2, 2)
        if not model:
            x = torch.randn(L, 2, 2, dtype=DT)
        out = fn(x.clone(), 0, left=left)
        ref, acc = [], None
        for k in range(L):
            acc = x[k] if acc is None else ((x[k] @ acc if left else acc @ x[k]) if 'prod' in api else x[k] * acc)
            ref.append(acc)
        e = (out - torch.stack(ref)).abs().max().item()
        return e > 1e-9, '%s(left=%s) on a stack of %d 2x2 matrices differs from the ordered %s fold by %.3g' % (api, left, L, 'matrix-product' if 'prod' in api else 'elementwise', e)

    from .common import run_paths
    for ctx, (out, xs, inplace) in run_paths(H, name, prog, max_paths=2):
        mats = [T.mat(xs[4 * k:4 * k + 4], 2, 2) for k in range(L)]
        want = [e_ for Mk in fold(mats) for row in Mk for e_ in row]
        H.prove(name + '/in-place-iff-underscore', [], z3.BoolVal(bool(inplace) == api.endswith('_')), replay=replay, key='C12/matrix')
        for i, (l, r) in enumerate(zip(out, want)):
            H.same('%s/out[%d]' % (name, i), [], l, r, ctx, replay=replay, key='C12/matrix', timeout=10)


def run(H):
    H.assumptions += ['the user operation is associative (free monoid = most general such operation)',
                      'exact real arithmetic for the LieTensor variants']
    quickL = list(range(1, 34)) + [63, 64, 65, 127, 128, 129, 255, 256, 257, 511, 512, 513, 1023, 1024, 1025, 2047, 2048, 2049, 4095, 4096]
    thorL = list(range(1, 1026)) + [2047, 2048, 2049, 3000, 4095, 4096]
    Ls = quickL if H.quick else thorL
    H.bounds += ['lengths L in %s; L <= 65 with z3 sequences, larger L with the range algebra of contiguous products' % (
        '1..33 and the neighbours of every power of two up to 4096' if H.quick else '1..1025 and the neighbours of powers of two up to 4096'),
                 'views: contiguous, transposed, strided, column block',
                 'tensor ranks 1..3 (rank 4 in thorough), every dim incl. negative', 'LieTensor variants: L <= %d; lshapes (L,), (2,2), (2,3), (3,2) with positive and negative dims; SO3/RxSO3 also with non-unit quaternions' % (3 if H.quick else 5), 'plain-tensor wrappers: stacks of 2-3 (thorough 5) symbolic 2x2 matrices']
    for L in Ls:
        for api in ('cumops', 'cumops_'):
            free_monoid_case(H, L, (L,), 0, api, True, algebra=('seq' if L <= 65 else 'range'))
    # non-contiguous inputs (views of larger buffers): result and overwrite semantics must not depend on strides
    for L in ([2, 3, 5] if H.quick else [2, 3, 4, 5, 7, 9]):
        for kind, shape, dim in (('transposed', (L, 3), 0), ('transposed', (3, L), 1), ('strided', (2, L), 1),
                                 ('strided', (L, 2), 0), ('colblock', (L, 3), 0), ('colblock', (2, L), 1)):
            for api in ('cumops', 'cumops_'):
                free_monoid_case(H, L, shape, dim, api, True, kind=kind)
    # every dim of higher-rank tensors (small extents elsewhere)
    for L in ([1, 2, 3, 5, 6, 7] if H.quick else [1, 2, 3, 4, 5, 6, 7, 9, 12, 17]):
        shapes = [((L, 2), 0), ((2, L), 1), ((2, L), -1), ((2, L, 2), 1), ((L, 2, 2), 0), ((2, 2, L), 2), ((2, L, 2), -2)]
        if not H.quick:
            shapes += [((2, 1, L, 2), 2), ((2, 1, L, 2), -2), ((1, L, 2, 2), 1)]
        for shape, dim in shapes:
            for api in ('cumops', 'cumops_'):
                free_monoid_case(H, L, shape, dim, api, True)
    # LieTensor wrappers (left / right, function / method, in-place / out-of-place)
    # (the index schedule is settled by the free-monoid cases for any associative operation; the LieTensor cases pin
    #  down which operand order the wrappers hand to it, for which short sequences suffice)
    for g in GROUPS:
        for L in ([1, 2, 3] if H.quick else ([1, 2, 3, 4, 5] if g in ('SO3', 'RxSO3') else [1, 2, 3, 4])):
            for api in ('cumprod', 'cumprod_', 'cummul', 'cummul_'):
                for left in (True, False):
                    for method in ((False, True) if L == 3 or not H.quick else (False,)):
                        lie_case(H, g, L, api, left, method)
    # configurations: batch rank 2, every dim (negative ones too: torch semantics, counted over the lshape); arbitrary quaternions
    # (a negative dim counts over the full tensor shape, parameter axis included, as in torch: -2 is the last batch axis)
    for g, lshape, dim in (('SO3', (2, 2), -2), ('SO3', (2, 2), -3), ('SE3', (2, 2), 1), ('SE3', (2, 3), -2), ('RxSO3', (3, 2), -3), ('Sim3', (2, 2), 0)):
        ax = dim if dim >= 0 else dim + 1
        for api in (('cumprod', 'cummul_') if H.quick else ('cumprod', 'cumprod_', 'cummul', 'cummul_')):
            lie_case(H, g, lshape[ax], api, True, True, lshape=lshape, dim=dim)
            if not H.quick:
                lie_case(H, g, lshape[ax], api, False, False, lshape=lshape, dim=dim)
    for g in ('SO3', 'RxSO3'):
        for api in ('cumprod', 'cumprod_', 'cummul'):
            lie_case(H, g, 3, api, api != 'cummul', False, unit=False)
    # plain-tensor wrappers: matrix product for cumprod, elementwise product for cummul, both operand orders
    for L in ((2, 3) if H.quick else (2, 3, 4, 5)):
        for api in ('cumprod', 'cumprod_', 'cummul', 'cummul_'):
            for left in (True, False):
                try:
                    matrix_case(H, L, api, left)
                except Exception as e:
                    import traceback; traceback.print_exc()
                    H.engine_error('matrix/%s' % api, e)
    return H.finish(explanation=EXPLAIN)
