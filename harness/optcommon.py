"""shared pieces of the optimizer harnesses (C07, C08): bounded model programs, recording solver, oracle Jacobians."""
import torch
import z3
from torch import nn

import pypose as pp
from symx import terms as T
from symx.terms import diff
from .common import *
from .jac import tangent_basis


class RecSolver(nn.Module):
    """user-supplied solver: records the terms of (A, b) it is called with and returns an arbitrary (fresh symbolic) solution;
    raise_at=j makes the j-th solve of the run raise"""
    def __init__(self, m, raise_at=None, rot_slices=(), big=True):
        super().__init__()
        self.m, self.calls, self.raise_at, self.Ds = m, [], raise_at, []
        self.rot_slices = rot_slices
        self.big = big

    def forward(self, A, b):
        m = self.m
        k = len(self.calls)
        self.calls.append((m.full_terms(A), m.full_terms(b), tuple(A.shape), tuple(b.shape)))
        if self.raise_at is not None and k == self.raise_at:
            raise RuntimeError('linear solver failed (injected fault at solve %d)' % k)
        gen = torch.Generator().manual_seed(1000 + k)
        D = torch.randn(A.shape[-1], 1, dtype=A.dtype, generator=gen) * 0.3
        ds = m.symbolic(D, 'd%d_' % k)
        # keep the retraction on its closed-form branch (tiny steps are covered by C01/C05): |rotation part| > 1e-3
        for sl in self.rot_slices:
            m.ctx.assume.append(z3.Sum([ds[i] * ds[i] for i in range(*sl)]) > z3.RealVal('1/1000000'))
        self.Ds.append(ds)
        return D


def make_model(kind, m):
    """returns (module, info).  info: list of params [(name, kind, group, vars, tensor)], input tensors, residual oracle builder"""
    gen = torch.Generator().manual_seed(5)
    if kind == 'SO3-act':
        X, xs = sym_group(m, 'SO3', 'x', 201)
        p = torch.randn(2, 3, dtype=DT, generator=gen)
        y = torch.randn(2, 3, dtype=DT, generator=gen)
        ps, ys = m.symbolic(p, 'p'), m.symbolic(y, 'y')

        class M(nn.Module):
            def __init__(s):
                super().__init__()
                s.X = pp.Parameter(X)

            def forward(s, inp):
                return s.X.Act(inp)
        mod = M()
        params = [('X', 'group', 'SO3', xs, mod.X)]
        return mod, params, p, y, ps, ys, {'rot_slices': [(0, 3)]}
    if kind == 'SO3-act-batched':
        # residual of shape (B=2, N=2, 3): used with a weight of shape (N=2, 3, 3) (fewer leading dims than the residual)
        X, xs = sym_group(m, 'SO3', 'x', 204)
        p = torch.randn(2, 2, 3, dtype=DT, generator=gen)
        y = torch.randn(2, 2, 3, dtype=DT, generator=gen)
        ps, ys = m.symbolic(p, 'p'), m.symbolic(y, 'y')

        class M(nn.Module):
            def __init__(s):
                super().__init__()
                s.X = pp.Parameter(X)

            def forward(s, inp):
                return s.X.Act(inp)
        mod = M()
        params = [('X', 'group', 'SO3', xs, mod.X)]
        return mod, params, p, y, ps, ys, {'rot_slices': [(0, 3)]}
    if kind in ('SE3+euclid+frozen', 'frozen+SE3+euclid'):
        first = kind.startswith('frozen')
        X, xs = sym_group(m, 'SE3', 'x', 202)
        e = torch.randn(3, dtype=DT, generator=gen) * 0.3
        f = torch.randn(3, dtype=DT, generator=gen) * 0.3
        es, fs = m.symbolic(e, 'e'), m.symbolic(f, 'f')
        p = torch.randn(1, 3, dtype=DT, generator=gen)
        y = torch.randn(1, 3, dtype=DT, generator=gen)
        ps, ys = m.symbolic(p, 'p'), m.symbolic(y, 'y')

        class M(nn.Module):
            def __init__(s):
                super().__init__()
                if first:       # registration order = order in the optimizer's parameter group
                    s.f = nn.Parameter(f, requires_grad=False)
                s.X = pp.Parameter(X)
                s.e = nn.Parameter(e)
                if not first:
                    s.f = nn.Parameter(f, requires_grad=False)

            def forward(s, inp):
                return s.X.Act(inp + s.e) + s.f
        mod = M()
        params = [('X', 'group', 'SE3', xs, mod.X), ('e', 'vec', None, es, mod.e), ('f', 'frozen', None, fs, mod.f)]
        if first:
            params = params[2:] + params[:2]
        return mod, params, p, y, ps, ys, {'rot_slices': [(3, 6)]}
    if kind == 'so3-algebra+two-outputs':
        a = rand_alg('SO3', 203, sigma=0.5)
        as_ = m.symbolic(a, 'a')
        e = torch.randn(2, dtype=DT, generator=gen)
        es = m.symbolic(e, 'e')
        p = torch.randn(1, 3, dtype=DT, generator=gen)
        ps = m.symbolic(p, 'p')
        y = None

        class M(nn.Module):
            def __init__(s):
                super().__init__()
                s.a = pp.Parameter(pp.so3(a))
                s.e = nn.Parameter(e)

            def forward(s, inp):
                return s.a.Exp().Act(inp), (s.e * s.e - inp[..., :2])
        mod = M()
        params = [('a', 'vec', None, as_, mod.a), ('e', 'vec', None, es, mod.e)]
        return mod, params, p, y, ps, None, {'rot_slices': []}
    if kind == 'euclid+two-outputs':
        e = torch.randn(2, dtype=DT, generator=gen)
        es = m.symbolic(e, 'e')
        p = torch.randn(1, 3, dtype=DT, generator=gen)
        ps = m.symbolic(p, 'p')

        class M(nn.Module):
            def __init__(s):
                super().__init__()
                s.e = nn.Parameter(e)

            def forward(s, inp):
                return (s.e * 2.0 - inp[..., :2]), (s.e * s.e - inp[..., 1:])
        mod = M()
        params = [('e', 'vec', None, es, mod.e)]
        return mod, params, p, None, ps, None, {'rot_slices': []}
    raise ValueError(kind)


def oracle_residual_jacobian(ctx, m, mod, params, p, y, weightless=True):
    """R (flat terms) and J_true in tangent coordinates, from the engine's own forward terms and the symbolic differentiator.
    Columns: for every non-frozen parameter in order: group -> gdim columns (adim tangent columns + zero padding), vec -> numel."""
    with torch.no_grad():
        out = mod(p)
    outs = out if isinstance(out, (tuple, list)) else (out,)
    R = []
    for k, o in enumerate(outs):
        ot = o.tensor() if isinstance(o, pp.LieTensor) else o
        rt = m.full_terms(ot)
        if y is not None and k == 0:
            rt = [a - b for a, b in zip(rt, m.full_terms(y))]
        R.append(rt)
    Rflat = [r for rr in R for r in rr]
    cols = []
    for (nm, kind, g, vs, ten) in params:
        if kind == 'frozen':
            continue
        if kind == 'group':
            B = tangent_basis(g, vs, nm)
            for j in range(ADIM[g]):
                cols.append([z3.simplify(z3.Sum([diff(r, vs[l], ctx.tfvar, ctx) * B[l][j] for l in range(len(vs))])) for r in Rflat])
            for _ in range(GDIM[g] - ADIM[g]):
                cols.append([z3.RealVal(0)] * len(Rflat))
        else:
            for j in range(len(vs)):
                cols.append([diff(r, vs[j], ctx.tfvar, ctx) for r in Rflat])
    J = [[cols[j][i] for j in range(len(cols))] for i in range(len(Rflat))]
    return R, Rflat, J


def expected_update(ctx, params, D):
    """oracle: parameter terms after applying the step D (list of terms, in non-frozen parameter order)"""
    from .jac import gmul
    out = {}
    k = 0
    for (nm, kind, g, vs, ten) in params:
        if kind == 'frozen':
            out[nm] = list(vs)
            continue
        if kind == 'group':
            sl = D[k:k + GDIM[g]]
            k += GDIM[g]
            out[nm] = ('retract', g, vs, sl[:ADIM[g]])
        else:
            sl = D[k:k + len(vs)]
            k += len(vs)
            out[nm] = [a + b for a, b in zip(vs, sl)]
    return out


def concrete_instance(kind, env):
    """the model program of `kind` as an ordinary concrete module whose parameters and inputs carry the values of a solver model
    (names as created by make_model; missing names keep the seeded values).  Returns (module, params, p, y)."""
    from symx.engine import Ctx, SymMode
    ctx = Ctx()
    with SymMode(ctx) as m1:
        mod, params, p, y, ps, ys, info = make_model(kind, m1)

    def fill(ten, vs, group=None):
        cur = ten.detach().reshape(-1).tolist()
        vals = torch.tensor([float(env.get(str(v), c)) for v, c in zip(vs, cur)], dtype=ten.dtype)
        if group is not None:
            vals = normalize_group(group, vals)
        with torch.no_grad():
            ten.copy_(vals.view(ten.shape))
    for nm, k_, g, vs, ten in params:
        fill(ten.data, vs, g if k_ == 'group' else None)
    fill(p, ps)
    if y is not None and ys is not None:
        fill(y, ys)
    return mod, params, p, y


def fd_residual_jacobian(mod, params, p, y, h=1e-6):
    """residual vector and its Jacobian in tangent coordinates by central differences (replay only: confirms solver candidates)"""
    before = {nm: ten.data.clone() for nm, k_, g, vs, ten in params}

    def resid():
        with torch.no_grad():
            out = mod(p)
        outs = out if isinstance(out, (tuple, list)) else (out,)
        rs = []
        for i, o in enumerate(outs):
            o = o.tensor() if isinstance(o, pp.LieTensor) else o
            rs.append((o - y if (y is not None and i == 0) else o).reshape(-1))
        return torch.cat(rs)
    cols = []
    with torch.no_grad():
        for nm, k_, g, vs, ten in params:
            if k_ == 'frozen':
                continue
            n = ADIM[g] if k_ == 'group' else ten.numel()
            for j in range(n):
                d = torch.zeros(n, dtype=DT)
                d[j] = h
                vals = []
                for sgn in (1, -1):
                    if k_ == 'group':
                        ten.data.copy_((pp.LieTensor(sgn * d, ltype=ATYPE[g]).Exp() @ pp.LieTensor(before[nm], ltype=GTYPE[g])).tensor())
                    else:
                        ten.data.copy_(before[nm] + sgn * d.view(before[nm].shape))
                    vals.append(resid())
                ten.data.copy_(before[nm])
                cols.append((vals[0] - vals[1]) / (2 * h))
            if k_ == 'group':
                for _ in range(GDIM[g] - ADIM[g]):
                    cols.append(torch.zeros_like(cols[-1]))
    return resid(), torch.stack(cols, 1)
