"""Shared harness helpers: group layouts, symbolic group elements, oracle matrices, path runner."""
import math

import torch
import z3

import pypose as pp
from symx.engine import explore, Unsupported, BoundExhausted, PI
from symx.harness import selftest_terms
from symx import terms as T

DT = torch.float64
GROUPS = ['SO3', 'SE3', 'RxSO3', 'Sim3']
GDIM = {'SO3': 4, 'SE3': 7, 'RxSO3': 5, 'Sim3': 8}
ADIM = {'SO3': 3, 'SE3': 6, 'RxSO3': 4, 'Sim3': 7}
ALG = {'SO3': 'so3', 'SE3': 'se3', 'RxSO3': 'rxso3', 'Sim3': 'sim3'}
GTYPE = {'SO3': pp.SO3_type, 'SE3': pp.SE3_type, 'RxSO3': pp.RxSO3_type, 'Sim3': pp.Sim3_type}
ATYPE = {'SO3': pp.so3_type, 'SE3': pp.se3_type, 'RxSO3': pp.rxso3_type, 'Sim3': pp.sim3_type}
RANDN = {'SO3': pp.randn_SO3, 'SE3': pp.randn_SE3, 'RxSO3': pp.randn_RxSO3, 'Sim3': pp.randn_Sim3}
RANDN_A = {'SO3': pp.randn_so3, 'SE3': pp.randn_se3, 'RxSO3': pp.randn_rxso3, 'Sim3': pp.randn_sim3}


def parts(g, x):
    """split flat element (list of terms or floats) into (t or None, q, s or None)"""
    if g == 'SO3':
        return None, x[0:4], None
    if g == 'SE3':
        return x[0:3], x[3:7], None
    if g == 'RxSO3':
        return None, x[0:4], x[4]
    return x[0:3], x[3:7], x[7]


def aparts(g, a):
    """algebra element -> (tau or None, phi, sigma or None)"""
    if g == 'SO3':
        return None, a[0:3], None
    if g == 'SE3':
        return a[0:3], a[3:6], None
    if g == 'RxSO3':
        return None, a[0:3], a[3]
    return a[0:3], a[3:6], a[6]


def valid(g, x):
    """validity predicate of a group element: unit quaternion, positive scale"""
    t, q, s = parts(g, x)
    c = [T.dot(q, q) == 1]
    if s is not None:
        c.append(s > 0)
    return c


def unit_rel(g, x):
    t, q, s = parts(g, x)
    return T.dot(q, q) - 1


def mat4(g, x):
    """documented 4x4 representation [[sR, t],[0,1]] built from the textbook quaternion->rotation formula"""
    t, q, s = parts(g, x)
    Rm = T.quat_rot(q)
    if s is not None:
        Rm = T.mscale(s, Rm)
    O, I = z3.RealVal(0), z3.RealVal(1)
    tt = t if t is not None else [O, O, O]
    return [Rm[0] + [tt[0]], Rm[1] + [tt[1]], Rm[2] + [tt[2]], [O, O, O, I]]


def mat_native(g, x):
    """matrix in the shape LieTensor.matrix() documents: 3x3 for SO3/RxSO3, 4x4 for SE3/Sim3"""
    M = mat4(g, x)
    if g == 'SO3':
        return [r[:3] for r in M[:3]]
    return M


def rand_group(g, seed, dtype=DT, shape=()):
    """random valid group element(s) (own generator: pypose's randn_* do not all accept one)"""
    gen = torch.Generator().manual_seed(seed)
    q = torch.randn(*shape, 4, dtype=torch.float64, generator=gen)
    q = q / q.norm(dim=-1, keepdim=True)
    t = torch.randn(*shape, 3, dtype=torch.float64, generator=gen)
    s = torch.exp(0.3 * torch.randn(*shape, 1, dtype=torch.float64, generator=gen))
    data = {'SO3': q, 'SE3': torch.cat([t, q], -1), 'RxSO3': torch.cat([q, s], -1), 'Sim3': torch.cat([t, q, s], -1)}[g]
    return pp.LieTensor(data.to(dtype).contiguous(), ltype=GTYPE[g])


def rand_alg(g, seed, dtype=DT, sigma=1.0):
    gen = torch.Generator().manual_seed(seed)
    return (torch.randn(ADIM[g], dtype=dtype, generator=gen) * sigma)


def sym_group(m, g, name, seed, dtype=DT):
    """fresh LieTensor of group g with symbolic elements `name0..`, returns (X, vars).  Validity assumptions are
    appended to m.ctx.assume."""
    X = rand_group(g, seed, dtype)
    vs = m.symbolic(X, name)
    m.ctx.assume += valid(g, vs)
    return X, vs


def sym_alg(m, g, name, seed, dtype=DT, sigma=1.0):
    a = rand_alg(g, seed, dtype, sigma)
    vs = m.symbolic(a, name)
    return pp.LieTensor(a, ltype=ATYPE[g]), vs


def sym_vec(m, n, name, seed, dtype=DT):
    gen = torch.Generator().manual_seed(seed)
    p = torch.randn(n, dtype=dtype, generator=gen)
    vs = m.symbolic(p, name)
    return p, vs


def run_paths(H, case, prog, selftest_keys=None, raised=None, **kw):
    """iterate feasible paths of prog under the engine; yields (ctx, value).  Engine failures are recorded as
    'not encoded' (never a pass).  The first concrete-following path is differentially self-tested."""
    kw.setdefault('max_paths', 32 if H.quick else 128)
    ctx_opts = kw.pop('ctx_opts', None)
    if ctx_opts:
        _p = prog

        def prog(m, _p=_p):
            for k_, v_ in ctx_opts.items():
                setattr(m.ctx, k_, v_)
            return _p(m)
    try:
        for pr in explore(prog, **kw):
            H.absorb(pr.ctx)
            if pr.error is not None:
                H.engine_error(case, pr.error)
                continue
            if pr.raised is not None:
                if raised is not None:
                    raised(pr.ctx, pr.raised)       # the harness decides what an exception on this path means
                else:
                    H.engine_error(case, pr.raised)
                continue
            H.cur_ctx = pr.ctx
            yield pr.ctx, pr.value
            H.cur_ctx = None
    except BoundExhausted as e:
        H.engine_error(case, e)
    except Unsupported as e:
        H.engine_error(case, e)


def selftest(H, ctx, m, pairs, what):
    """pairs: list of (terms, tensor) - compare evalf(terms at ctx.env) against tensor payload if the path followed
    the concrete execution"""
    if ctx.deviated:
        return
    for terms, ten in pairs:
        conc = m.concrete_vals(ten)
        selftest_terms(H, ctx, terms, [float(c) for c in conc], ctx.env, what=what)


def tensor_from_env(names, env, dtype=DT):
    return torch.tensor([float(env.get(n, 0.0)) for n in names], dtype=dtype)


def names_of(vs):
    return [str(v) for v in vs]


def normalize_group(g, x):
    """concrete tensor -> valid group element (renormalise quaternion, as the model values are only
    double approximations of algebraic numbers)"""
    x = x.clone()
    if g == 'SO3':
        x[0:4] = x[0:4] / x[0:4].norm()
    elif g == 'SE3':
        x[3:7] = x[3:7] / x[3:7].norm()
    elif g == 'RxSO3':
        x[0:4] = x[0:4] / x[0:4].norm()
    else:
        x[3:7] = x[3:7] / x[3:7].norm()
    return x


def generic_replay(run_concrete, oracle_terms, tfvar, var_names, tol=1e-6, index=None, relative=False):
    """Build a replay closure: run the real code (no engine) on tensors filled from the solver model and compare
    with the numeric value of the independent oracle terms at the same point."""
    from symx.terms import evalf

    def replay(model):
        env = {n: float(model.get(n, 0.0)) for n in var_names}
        out, env2 = run_concrete(env)           # env2: env after any renormalisation actually used
        out = [float(v) for v in out]
        idxs = range(len(out)) if index is None else [index]
        worst = 0.0
        wi = None
        for i in idxs:
            o = evalf(oracle_terms[i], env2, tfvar)
            if isinstance(o, bool):
                o = float(o)
            if o != o:
                continue
            # relative=True: purely relative error (for positive multiplicative quantities such as scales, whose magnitude is arbitrary)
            d = abs(out[i] - o) / ((abs(o) if abs(o) > 0 else 1.0) if relative else (1 + abs(o)))
            if out[i] != out[i]:
                d = float('inf')
            if d > worst:
                worst, wi = d, i
        if worst > tol:
            return True, 'real code differs from oracle at component %s by %.3g (rel) at input %s' % (
                wi, worst, {k: round(v, 6) for k, v in list(env2.items())[:16]})
        return False, 'max rel diff %.3g' % worst
    return replay


# ---------------------------------------------------------------- staged lemmas for the generic branch of the quaternion logarithm

def _mentions(term, var):
    from symx.terms import free_vars
    return str(var) in free_vars(term)


def quat_log_families(ctx):
    """Find the abstraction variables created by the generic branch of SO3_Log (A = atan(S1 / w), S1 = |v|) and by functions
    of the norm S3 = |phi| of its result (half-angle and full-angle sin / cos).  Purely syntactic: what is returned only
    drives which LEMMAS the harness states; every lemma is proved by the solver before it is used."""
    from symx.axioms import angle_table, _eq0
    fams = []
    vs = list(ctx.tfvar.values())
    sq = {v.get_id(): (a, v) for (nm, a, v) in vs if nm == 'sqrt'}
    for (nm, u, A) in vs:
        if nm != 'atan' or not z3.is_app(u) or u.decl().kind() != z3.Z3_OP_DIV:
            continue
        S1, w = u.children()
        if S1.get_id() not in sq:
            continue
        for (a3, S3) in sq.values():
            if not _mentions(a3, A):
                continue
            half = full = None
            for k, (a, s, c) in angle_table(ctx, create=False).items():
                if s is None or c is None:
                    continue
                if _eq0(a - S3 / 2):
                    half = (s, c)
                elif _eq0(a - S3):
                    full = (s, c)
            fams.append(dict(A=A, S1=S1, w=w, S3=S3, half=half, full=full))
    return fams


def quat_log_lemmas(ctx, sign):
    """lemma chain for the hemisphere sign*w > 0 (sign = +1 / -1): returns (case hypotheses, lemma list for Harness.chain).
    Base facts (literal axioms / path facts) are proved from the full hypothesis set; every further step is a FOCUSED query that sees
    only the handful of facts it needs."""
    case, lem = [], []
    for n, f in enumerate(quat_log_families(ctx)):
        A, S1, w, S3 = f['A'], f['S1'], f['w'], f['S3']
        a1, a3 = ctx.tfvar[S1.get_id()][1], ctx.tfvar[S3.get_id()][1]
        if n == 0:
            case.append(w > 0 if sign > 0 else w < 0)
        sw = z3.If(w > 0, w, -w)
        u = S1 / w
        L = lambda nm: '%s%d' % (nm, n)
        lem += [(L('case'), z3.Or(w > 0, w < 0)),
                (L('S1-def'), z3.And(S1 >= 0, S1 * S1 == a1)), (L('S3-def'), z3.And(S3 >= 0, S3 * S3 == a3)), (L('S1>0'), S1 > 0),
                (L('atan-sign'), z3.And(z3.Implies(w > 0, A > 0), z3.Implies(w < 0, A < 0))),
                (L('theta=2|atan|'), S3 == z3.If(w > 0, 2 * A, -2 * A), [L('case'), L('S1-def'), L('S3-def'), L('S1>0'), L('atan-sign')])]
        if f['half'] is not None:
            sn, cs = f['half']
            lem += [(L('atan-link'), z3.And(z3.Implies(S3 / 2 == A, z3.And(sn == u * cs, cs > 0)), z3.Implies(S3 / 2 == -A, z3.And(sn == -u * cs, cs > 0)))),
                    (L('pyth'), sn * sn + cs * cs == 1),
                    (L('unit'), S1 * S1 + w * w == 1),
                    (L('half:a'), z3.And(sn * sw == S1 * cs, cs > 0), [L('case'), L('theta=2|atan|'), L('atan-link')]),
                    (L('half:b'), cs * cs == w * w, [L('case'), L('half:a'), L('pyth'), L('unit')]),
                    (L('half'), z3.And(cs == sw, sn == S1), [L('case'), L('half:a'), L('half:b'), L('S1>0'), L('pyth'), L('unit')])]
            if f['full'] is not None:
                sN, cN = f['full']
                lem.append((L('full'), z3.And(sN == 2 * S1 * sw, cN == 1 - 2 * S1 * S1)))
    return case, lem


def quat_log_relations(ctx, sign):
    """the conclusions of quat_log_lemmas(ctx, sign) as polynomial relations (terms that are zero), for certificates; with the list
    of abstraction variables they eliminate"""
    rels, elim = [], []
    fams = quat_log_families(ctx)
    w0 = fams[0]['w'] if fams else None
    sign0 = sign
    for n, f in enumerate(fams):
        A, S1, w, S3 = f['A'], f['S1'], f['w'], f['S3']
        a1 = ctx.tfvar[S1.get_id()][1]
        # the hemisphere hypothesis is stated on the first family's w; a family whose w is syntactically -w0 (the negated
        # quaternion) lies in the other hemisphere
        flip = n > 0 and z3.is_true(z3.simplify(w + w0 == 0))
        if n > 0 and not flip and not z3.is_true(z3.simplify(w == w0)):
            continue          # unrelated family: no relation offered (the obligation falls back to the direct query)
        sign = -sign0 if flip else sign0
        sw = w if sign > 0 else -w
        rels += [S3 - 2 * A * sign, S1 * S1 - a1, a1 + w * w - 1]
        elim += [S3]
        if f['half'] is not None:
            sn, cs = f['half']
            rels += [sn - S1, cs - sw]
            elim += [sn, cs]
            if f['full'] is not None:
                sN, cN = f['full']
                rels += [sN - 2 * S1 * sw, cN - (1 - 2 * S1 * S1)]
                elim += [sN, cN]
    return rels, elim


def no_downcast_ob(H, ctx, name, key, replay):
    """float64 data of the caller must not be pushed through a lower-precision (or integer) cast inside the library: invisible over
    the reals, so the engine records such casts (ctx.downcasts) and the harness states their absence as an obligation; `replay`
    demonstrates the loss of precision on the real code before anything is reported."""
    dc = getattr(ctx, 'downcasts', [])
    return H.prove(name + '/no-precision-reducing-cast', [], z3.BoolVal(not dc), replay=(lambda model: (lambda r: (r[0], '%s; recorded cast(s): %s' % (r[1], dc[:2])))(replay(model))), key=key)
