"""C06 - batching / broadcasting / views are transparent; pure ops never mutate inputs; patched internals are restored."""
import itertools
import os
import re
import subprocess
import sys
import time

import torch
import z3

import pypose as pp
from symx import terms as T
from symx.engine import Ctx, SymMode, Unsupported, BoundExhausted, Infeasible
from .common import *

EXPLAIN = ("(a) Batching: for every pair of lshapes of rank <= 2 with extents in {0,1,2} (quick; rank <= 3 / extents {0,1,2,3} thorough) accepted by "
           "torch.broadcast_shapes, every unary/binary LieTensor operation runs once batched on symbolic items and once item by item under symx; the batched "
           "result must carry exactly the item results (solver obligation, mostly closed syntactically), with the documented ltype, lshape and dtype; an "
           "exception on a legal shape pair is a violation. (b) Every function of the library's handled-function list that keeps the last dimension is "
           "applied to a LieTensor with symbolic items and to the plain tensor: same terms, LieTensor type, same ltype. (c) Non-mutation: a curated list of "
           "public functions without trailing underscore runs under symx (unknown operators havoc their outputs); afterwards every argument's memory must "
           "still hold its original symbolic variables on every path. (d) CrossHair: retain_ltype (and func.jacrev's wrapper) restore the three patched "
           "PyTorch internals when the wrapped body raises at an arbitrary (symbolic) point.")
SPEC = os.path.join(os.path.dirname(os.path.abspath(__file__)), 'specs', 'c06_spec.py')


def lshapes(quick):
    ext = (0, 1, 2) if quick else (0, 1, 2, 3)
    maxrank = 2 if quick else 3
    out = [()]
    for r in range(1, maxrank + 1):
        out += list(itertools.product(ext, repeat=r))
    return out


def broadcastable(a, b):
    try:
        return tuple(torch.broadcast_shapes(a, b))
    except RuntimeError:
        return None


BINARY = {
    'Mul': (lambda X, Y: X @ Y, 'group', 'group', 'group'),
    'Act3': (lambda X, p: X.Act(p), 'group', 'vec3', 'vec3'),
    'Act4': (lambda X, p: X.Act(p), 'group', 'vec4', 'vec4'),
    'Adj': (lambda X, a: X.Adj(a), 'group', 'alg', 'alg'),
    'AdjT': (lambda X, a: X.AdjT(a), 'group', 'alg', 'alg'),
}
UNARY = {
    'Inv': (lambda X: X.Inv(), 'group', 'group'),
    'matrix': (lambda X: X.matrix(), 'group', 'mat'),
    'rotation': (lambda X: X.rotation(), 'group', 'SO3'),
}


def make_operand(m, g, kind, shape, name, seed):
    n = 1
    for s in shape:
        n *= s
    gen = torch.Generator().manual_seed(seed)
    if kind == 'group':
        X = rand_group(g, seed, shape=tuple(shape))
        vs = m.symbolic(X, name) if n else []
        for i in range(n):
            m.ctx.assume += valid(g, vs[i * GDIM[g]:(i + 1) * GDIM[g]])
        return X, vs, GDIM[g]
    if kind == 'alg':
        a = torch.randn(*shape, ADIM[g], dtype=DT, generator=gen)
        vs = m.symbolic(a, name) if n else []
        return pp.LieTensor(a, ltype=ATYPE[g]), vs, ADIM[g]
    d = 3 if kind == 'vec3' else 4
    p = torch.randn(*shape, d, dtype=DT, generator=gen)
    vs = m.symbolic(p, name) if n else []
    return p, vs, d


def case_binary(H, g, opname, sa, sb):
    fn, ka, kb, kout = BINARY[opname]
    out_shape = broadcastable(sa, sb)
    name = 'C06/batch/%s/%s/%s x %s' % (g, opname, sa, sb)
    ctx = Ctx()
    try:
        with SymMode(ctx) as m:
            A, av, da = make_operand(m, g, ka, sa, 'a', 601)
            B, bv, db = make_operand(m, g, kb, sb, 'b', 602)
            out = fn(A, B)
            ot = out.tensor() if isinstance(out, pp.LieTensor) else out
            oterms = m.full_terms(ot)
            meta_ok = tuple(ot.shape[:-1]) == out_shape and ot.dtype == DT
            if kout == 'group':
                meta_ok = meta_ok and isinstance(out, pp.LieTensor) and out.ltype == GTYPE[g] and tuple(out.lshape) == out_shape
            elif kout == 'alg':
                meta_ok = meta_ok and isinstance(out, pp.LieTensor) and out.ltype == ATYPE[g]
            # item by item
            dout = ot.shape[-1]
            items = []
            nout = 1
            for s in out_shape:
                nout *= s
            if nout:
                ia = torch.arange(max(1, A.numel() // da)).view(tuple(sa)).expand(out_shape).reshape(-1).tolist() if A.numel() else []
                ib = torch.arange(max(1, B.numel() // db)).view(tuple(sb)).expand(out_shape).reshape(-1).tolist() if B.numel() else []
                At = A.tensor() if isinstance(A, pp.LieTensor) else A
                Bt = B.tensor() if isinstance(B, pp.LieTensor) else B
                for k in range(nout):
                    xa = At.reshape(-1, da)[ia[k]]
                    xb = Bt.reshape(-1, db)[ib[k]]
                    xa = pp.LieTensor(xa, ltype=A.ltype) if isinstance(A, pp.LieTensor) else xa
                    xb = pp.LieTensor(xb, ltype=B.ltype) if isinstance(B, pp.LieTensor) else xb
                    o = fn(xa, xb)
                    o = o.tensor() if isinstance(o, pp.LieTensor) else o
                    items += m.full_terms(o)
        H.absorb(ctx)
    except (Unsupported, BoundExhausted) as e:
        H.engine_error(name, e)
        return
    except Infeasible:
        return
    except Exception as e:
        # replay without the engine: a legal shape pair must not raise
        try:
            A = rand_group(g, 1, shape=tuple(sa)) if ka == 'group' else None
            Bc = {'group': lambda: rand_group(g, 2, shape=tuple(sb)), 'alg': lambda: pp.LieTensor(torch.randn(*sb, ADIM[g], dtype=DT), ltype=ATYPE[g]),
                  'vec3': lambda: torch.randn(*sb, 3, dtype=DT), 'vec4': lambda: torch.randn(*sb, 4, dtype=DT)}[kb]()
            fn(A, Bc)
            H.engine_error(name, e)
        except Exception as e2:
            H.violation('C06/batch/raises/%s' % opname, '%s raised %s: %s on broadcastable lshapes' % (name, type(e2).__name__, str(e2)[:100]), {'case': name})
        return
    hyp = list(ctx.assume) + list(ctx.axioms) + list(ctx.pc)

    def replay(model):
        A = rand_group(g, 1, shape=tuple(sa))
        Bc = {'group': lambda: rand_group(g, 2, shape=tuple(sb)), 'alg': lambda: pp.LieTensor(torch.randn(*sb, ADIM[g], dtype=DT), ltype=ATYPE[g]),
              'vec3': lambda: torch.randn(*sb, 3, dtype=DT), 'vec4': lambda: torch.randn(*sb, 4, dtype=DT)}[kb]()
        out = fn(A, Bc)
        ot = out.tensor() if isinstance(out, pp.LieTensor) else out
        if tuple(ot.shape[:-1]) != out_shape:
            return True, 'result lshape %s, expected %s' % (tuple(ot.shape[:-1]), out_shape)
        At, Bt = A.tensor(), (Bc.tensor() if isinstance(Bc, pp.LieTensor) else Bc)
        Ae = At.expand(out_shape + (At.shape[-1],)).reshape(-1, At.shape[-1])
        Be = Bt.expand(out_shape + (Bt.shape[-1],)).reshape(-1, Bt.shape[-1])
        worst = 0.0
        for k in range(Ae.shape[0]):
            xb = pp.LieTensor(Be[k], ltype=Bc.ltype) if isinstance(Bc, pp.LieTensor) else Be[k]
            o = fn(pp.LieTensor(Ae[k], ltype=GTYPE[g]), xb)
            o = o.tensor() if isinstance(o, pp.LieTensor) else o
            worst = max(worst, (ot.reshape(-1, ot.shape[-1])[k] - o).abs().max().item())
        return worst > 1e-9, 'batched result differs from the item-by-item result by %.3g' % worst
    H.prove(name + '/meta', [], z3.BoolVal(bool(meta_ok)), replay=replay, key='C06/batch/%s' % opname)
    ok_len = len(items) == len(oterms)
    H.prove(name + '/items', hyp, z3.And([a == b for a, b in zip(oterms, items)]) if ok_len else z3.BoolVal(False), replay=replay, key='C06/batch/%s' % opname, timeout=15)


def case_unary(H, g, opname, sa, tag=''):
    fn, ka, kout = UNARY[opname]
    name = 'C06/batch/%s/%s/%s%s' % (g, opname, sa, tag)
    ctx = Ctx()
    try:
        with SymMode(ctx) as m:
            A, av, da = make_operand(m, g, ka, sa, 'a', 603)
            out = fn(A)
            ot = out.tensor() if isinstance(out, pp.LieTensor) else out
            oterms = m.full_terms(ot)
            tail = {'group': 1, 'SO3': 1, 'mat': 2}[kout]
            meta_ok = tuple(ot.shape[:-tail]) == tuple(sa) and ot.dtype == DT
            if kout in ('group', 'SO3'):
                meta_ok = meta_ok and isinstance(out, pp.LieTensor) and out.ltype == (GTYPE[g] if kout == 'group' else pp.SO3_type)
            items = []
            n = 1
            for s in sa:
                n *= s
            for k in range(n):
                o = fn(pp.LieTensor(A.tensor().reshape(-1, da)[k], ltype=A.ltype))
                o = o.tensor() if isinstance(o, pp.LieTensor) else o
                items += m.full_terms(o)
        H.absorb(ctx)
    except (Unsupported, BoundExhausted) as e:
        H.engine_error(name, e)
        return
    except Exception as e:
        try:
            fn(rand_group(g, 1, shape=tuple(sa)))
            H.engine_error(name, e)
        except Exception as e2:
            H.violation('C06/batch/raises/%s' % opname, '%s raised %s: %s' % (name, type(e2).__name__, str(e2)[:100]), {'case': name})
        return
    hyp = list(ctx.assume) + list(ctx.axioms) + list(ctx.pc)
    H.prove(name + '/meta', [], z3.BoolVal(bool(meta_ok)), key='C06/batch/%s' % opname,
            replay=lambda model: (True, '%s on lshape %s returned wrong type/lshape/dtype' % (opname, sa)))
    H.prove(name + '/items', hyp, z3.And([a == b for a, b in zip(oterms, items)]) if len(items) == len(oterms) else z3.BoolVal(False),
            key='C06/batch/%s' % opname, timeout=15, replay=lambda model: (True, '%s batched on lshape %s differs from item-by-item' % (opname, sa)))


def case_explog_batch(H, g, sa):
    """Exp / Log on small batches with symbolic items in possibly DIFFERENT regimes (mask indexing inside): batched == item by item"""
    name = 'C06/batch/%s/Exp,Log/%s' % (g, sa)

    def prog(m):
        a = torch.randn(*sa, ADIM[g], dtype=DT)
        as_ = m.symbolic(a, 'a')
        E = pp.LieTensor(a, ltype=ATYPE[g]).Exp()
        et = m.full_terms(E.tensor())
        items = []
        n = a.numel() // ADIM[g]
        for k in range(n):
            items += m.full_terms(pp.LieTensor(a.reshape(-1, ADIM[g])[k], ltype=ATYPE[g]).Exp().tensor())
        ok = isinstance(E, pp.LieTensor) and E.ltype == GTYPE[g] and tuple(E.lshape) == tuple(sa)
        return et, items, ok
    for ctx, (et, items, ok) in run_paths(H, name, prog, max_paths=(64 if g == "Sim3" else 16), max_decisions=40):
        H.prove('%s/path%d/meta' % (name, H.paths), [], z3.BoolVal(bool(ok)), key='C06/batch/Exp')
        H.prove('%s/path%d/items' % (name, H.paths), H.hyps_of(ctx, pairs=False), z3.And([a == b for a, b in zip(et, items)]) if len(et) == len(items) else z3.BoolVal(False),
                key='C06/batch/Exp', timeout=15)


def case_add_batch(H, g, sa, sb):
    """out-of-place `X + a` (documented item by item: y_i = Exp(a_i) x_i) on lshape sa plus increments of batch shape sb, both
    broadcast directions: batched == item by item, result lshape = broadcast shape"""
    name = 'C06/batch/%s/add/%s + %s' % (g, sa, sb)
    out_shape = broadcastable(sa, sb)

    def concrete():
        X = rand_group(g, 11, shape=tuple(sa))
        a = torch.randn(*sb, ADIM[g], dtype=DT, generator=torch.Generator().manual_seed(12))
        return X, a

    def replay(model):
        X, a = concrete()
        try:
            Y = X + a
        except Exception as e:
            return True, 'X + a with lshape %s and increments %s raised %s: %s' % (sa, sb, type(e).__name__, str(e)[:100])
        if tuple(Y.lshape) != out_shape:
            return True, 'X + a returned lshape %s, expected %s' % (tuple(Y.lshape), out_shape)
        Xe = X.tensor().expand(out_shape + (GDIM[g],)).reshape(-1, GDIM[g])
        ae = a.expand(out_shape + (ADIM[g],)).reshape(-1, ADIM[g])
        worst = 0.0
        for k in range(Xe.shape[0]):
            o = pp.LieTensor(Xe[k], ltype=GTYPE[g]) + ae[k]
            worst = max(worst, (Y.tensor().reshape(-1, GDIM[g])[k] - o.tensor()).abs().max().item())
        return worst > 1e-9, 'batched X + a differs from the item-by-item result by %.3g' % worst

    def prog(m):
        X, a = concrete()
        xs = m.symbolic(X, 'x')
        as_ = m.symbolic(a, 'a')
        Y = X + a
        yt = m.full_terms(Y.tensor())
        items = []
        n = 1
        for s_ in out_shape:
            n *= s_
        ia = torch.arange(max(1, X.numel() // GDIM[g])).view(tuple(sa)).expand(out_shape).reshape(-1).tolist()
        ib = torch.arange(max(1, a.numel() // ADIM[g])).view(tuple(sb)).expand(out_shape).reshape(-1).tolist()
        for k in range(n):
            o = pp.LieTensor(X.tensor().reshape(-1, GDIM[g])[ia[k]], ltype=GTYPE[g]) + a.reshape(-1, ADIM[g])[ib[k]]
            items += m.full_terms(o.tensor())
        ok = isinstance(Y, pp.LieTensor) and Y.ltype == GTYPE[g] and tuple(Y.lshape) == out_shape
        return yt, items, ok

    def on_raise(ctx, e):
        H.absorb(ctx)
        bad, det = replay({})
        if bad:
            H.violation('C06/batch/raises/add', '%s: %s' % (name, det), {'case': name})
        else:
            H.engine_error(name, e)

    for ctx, (yt, items, ok) in run_paths(H, name, prog, max_paths=16, max_decisions=40, raised=on_raise):
        H.prove('%s/path%d/meta' % (name, H.paths), [], z3.BoolVal(bool(ok)), key='C06/batch/add', replay=replay)
        H.prove('%s/path%d/items' % (name, H.paths), H.hyps_of(ctx, pairs=False), z3.And([a_ == b_ for a_, b_ in zip(yt, items)]) if len(yt) == len(items) else z3.BoolVal(False),
                key='C06/batch/add', timeout=15, replay=replay)


def case_jinvp_batch(H, g):
    """Jinvp on a batch of two symbolic elements in possibly DIFFERENT regimes (zero / tiny / generic rotation; mask arithmetic and
    whole-batch shortcuts inside the Jacobian helpers): batched == item by item, and finite"""
    name = 'C06/batch/%s/Jinvp/(2,)' % g

    def scenario(X, p):
        full = X.Jinvp(p).tensor()
        items = [X[k].Jinvp(p[k]).tensor() for k in range(2)]
        return full, items

    def prog(m):
        X = rand_group(g, 61, shape=(2,))
        xs = m.symbolic(X, 'x')
        for k in range(2):
            m.ctx.assume += valid(g, xs[GDIM[g] * k:GDIM[g] * (k + 1)])
        pt = torch.randn(2, ADIM[g], dtype=DT)
        m.symbolic(pt, 'p')
        full, items = scenario(X, pp.LieTensor(pt, ltype=ATYPE[g]))
        return m.full_terms(full), [t_ for it in items for t_ in m.full_terms(it)], m.poisons(full)

    def replay(model):
        worst, wx = 0.0, None
        xv = tensor_from_env(['x%d' % i for i in range(2 * GDIM[g])], model).view(2, GDIM[g])
        pv = tensor_from_env(['p%d' % i for i in range(2 * ADIM[g])], model).view(2, ADIM[g])
        if float(pv.abs().sum()) == 0:
            pv = torch.randn(2, ADIM[g], dtype=DT)
        qi = {'SO3': 0, 'SE3': 3, 'RxSO3': 0, 'Sim3': 3}[g]
        ident = rand_group(g, 61).tensor() * 0
        ident[qi + 3] = 1.0
        if g in ('RxSO3', 'Sim3'):
            ident[-1] = 1.0
        cands = [torch.stack([normalize_group(g, xv[0]) if xv[0].abs().sum() > 0 else ident, normalize_group(g, xv[1]) if xv[1].abs().sum() > 0 else ident])]
        # the same elements with one of them replaced by an exactly-zero rotation (the regime the solver's point only approximates)
        for k in range(2):
            c = cands[0].clone()
            c[k, qi:qi + 3] = 0.0
            c[k, qi + 3] = 1.0
            cands.append(c)
        for c in cands:
            full, items = scenario(pp.LieTensor(c, ltype=GTYPE[g]), pp.LieTensor(pv, ltype=ATYPE[g]))
            ref = torch.stack(items)
            if not torch.isfinite(full).all():
                return True, 'batched Jinvp is not finite for the batch %s (item-by-item finite: %s)' % (c.tolist(), bool(torch.isfinite(ref).all()))
            e = (full - ref).abs().max().item()
            if e > worst:
                worst, wx = e, c.tolist()
        return worst > 1e-9, 'batched Jinvp differs from item-by-item Jinvp by %.3g on the batch %s' % (worst, wx)

    for ctx, (full, items, pf) in run_paths(H, name, prog, max_paths=(32 if g != 'Sim3' else 96), max_decisions=60, track_poison=True):
        hyp = H.hyps_of(ctx, pairs=False)
        pn = H.paths
        H.prove('%s/path%d/same-length' % (name, pn), [], z3.BoolVal(len(full) == len(items)), replay=replay, key='C06/batch/Jinvp')
        for i, (l, r) in enumerate(zip(full, items)):
            H.same('%s/path%d/item[%d]' % (name, pn, i), hyp, l, r, ctx, replay=replay, key='C06/batch/Jinvp', timeout=15)
        ps = [p_ for p_ in pf if p_ is not None]
        if ps:
            H.prove('%s/path%d/finite' % (name, pn), list(ctx.assume) + list(ctx.pc), z3.Not(z3.Or(ps)), replay=replay, key='C06/batch/Jinvp', timeout=15)


# ------------------------------------------------------------------------------------------------ shape-only functions
def shape_functions():
    """(name, callable on a tensor/LieTensor of shape (2,3,D)) - functions of HANDLED_FUNCTIONS that keep the last dimension"""
    idx = torch.tensor([1, 0])
    mask = torch.tensor([True, False])
    F = [
        ('__getitem__[1]', lambda t: t[1]), ('__getitem__[:,1:]', lambda t: t[:, 1:]), ('__getitem__[idx]', lambda t: t[idx]), ('__getitem__[mask]', lambda t: t[mask]),
        ('double', lambda t: t.double()), ('to', lambda t: t.to(torch.float64)), ('detach', lambda t: t.detach()), ('cpu', lambda t: t.cpu()),
        ('view', lambda t: t.view(6, t.shape[-1])), ('reshape', lambda t: t.reshape(3, 2, t.shape[-1])), ('squeeze', lambda t: t.unsqueeze(0).squeeze(0)),
        ('unsqueeze', lambda t: t.unsqueeze(1)), ('cat', lambda t: torch.cat([t, t], 0)), ('stack', lambda t: torch.stack([t, t], 0)),
        ('concat', lambda t: torch.concat([t, t], 1)), ('vstack', lambda t: torch.vstack([t, t])), ('split', lambda t: torch.split(t, 1, 0)[1]),
        ('chunk', lambda t: torch.chunk(t, 2, 0)[1]), ('tensor_split', lambda t: torch.tensor_split(t, 2, 1)[0]), ('unbind', lambda t: torch.unbind(t, 0)[1]),
        ('index_select', lambda t: torch.index_select(t, 1, idx)), ('movedim', lambda t: torch.movedim(t, 0, 1)), ('moveaxis', lambda t: torch.moveaxis(t, 0, 1)),
        ('narrow', lambda t: torch.narrow(t, 1, 1, 2)), ('permute', lambda t: t.permute(1, 0, 2)), ('swapaxes', lambda t: torch.swapaxes(t, 0, 1)),
        ('swapdims', lambda t: torch.swapdims(t, 0, 1)), ('transpose', lambda t: t.transpose(0, 1)), ('clone', lambda t: t.clone()),
        ('tile', lambda t: torch.tile(t, (2, 1, 1))), ('repeat', lambda t: t.repeat(2, 1, 1)), ('expand', lambda t: t[:1].expand(3, 3, t.shape[-1])),
        ('expand_as', lambda t: t[:1].expand_as(t)), ('view_as', lambda t: t.view_as(t)), ('select', lambda t: torch.select(t, 1, 2)),
        ('gather', lambda t: torch.gather(t, 0, torch.zeros(1, 3, t.shape[-1], dtype=torch.int64))),
        ('take_along_dim', lambda t: torch.take_along_dim(t, torch.zeros(1, 3, t.shape[-1], dtype=torch.int64), 0)),
        ('index_copy', lambda t: torch.index_copy(t, 0, idx, t)), ('select_scatter', lambda t: torch.select_scatter(t, t[0], 0, 1)),
        ('index_put', lambda t: torch.index_put(t, (idx,), t)), ('scatter', lambda t: torch.scatter(t, 0, torch.zeros(1, 3, t.shape[-1], dtype=torch.int64), t)),
        ('masked_select-rows', lambda t: t[mask]),
    ]
    return F


def case_shape_functions(H, g):
    name = 'C06/shape-functions/%s' % g
    ctx = Ctx()
    D = GDIM[g]
    with SymMode(ctx) as m:
        X = rand_group(g, 610, shape=(2, 3))
        vs = m.symbolic(X, 'x')
        P = X.tensor()
        for fname, f in shape_functions():
            nm = '%s/%s' % (name, fname)
            try:
                a = f(X)
                b = f(P)
                ta = m.full_terms(a.tensor() if isinstance(a, pp.LieTensor) else a)
                tb = m.full_terms(b)
                ok = isinstance(a, pp.LieTensor) and a.ltype == GTYPE[g] and tuple(a.shape) == tuple(b.shape) and len(ta) == len(tb) and \
                    all(u.eq(v) for u, v in zip(ta, tb))
                H.prove(nm, [], z3.BoolVal(bool(ok)), key='C06/shape-functions',
                        replay=lambda model, fname=fname: (True, '%s on a %s LieTensor: result type/ltype/items differ from the plain-tensor result' % (fname, g)))
            except Unsupported as e:
                H.engine_error(nm, e)
            except Exception as e:
                try:
                    f(rand_group(g, 1, shape=(2, 3)))
                    H.engine_error(nm, e)
                except Exception as e2:
                    H.violation('C06/shape-functions/raises', '%s raised %s: %s' % (nm, type(e2).__name__, str(e2)[:80]), {'case': nm})
    H.absorb(ctx)


def case_empty_and_documented_meta(H, g):
    """two configuration clauses checked on the real code directly (no values involved, only types and shapes):
    (a) "every batch rank including none and empty": the scans over an EMPTY batch dimension return the empty LieTensor;
    (b) "returns the documented ... dtype and device": randn_like documents dtype/device defaulting to those of its input."""
    for lshape in ((0,), (0, 2), (2, 0)):
        for dim in range(len(lshape)):
            for api in ('cumprod', 'cummul', 'cumprod_'):
                nm = 'C06/empty/%s/%s/lshape=%s/dim=%d' % (g, api, lshape, dim)

                def attempt(api=api, lshape=lshape, dim=dim):
                    X = rand_group(g, 3, shape=lshape)
                    try:
                        Y = getattr(pp, api)(X.clone(), dim)
                    except Exception as e:
                        return True, '%s on a %s of lshape %s along dim %d raised %s: %s' % (api, g, lshape, dim, type(e).__name__, str(e)[:80])
                    bad = not (isinstance(Y, pp.LieTensor) and Y.ltype == X.ltype and tuple(Y.shape) == tuple(X.shape) and Y.dtype == X.dtype)
                    return bad, '%s on lshape %s returned %s %s' % (api, lshape, type(Y).__name__, tuple(Y.shape))
                bad, det = attempt()
                H.prove(nm, [], z3.BoolVal(not bad), key='C06/empty', replay=lambda model, a=attempt: a())
    for dt in (torch.float64, torch.float32):
        nm = 'C06/documented-meta/randn_like/%s/%s' % (g, str(dt).split('.')[-1])

        def attempt2(dt=dt):
            X = rand_group(g, 4, dtype=dt, shape=(2,))
            out = []
            for T_ in (X, X.Log()):
                Y = pp.randn_like(T_)
                if not (Y.dtype == T_.dtype and Y.device == T_.device and Y.ltype == T_.ltype and Y.lshape == T_.lshape):
                    out.append('randn_like(%s %s lshape %s) returned %s %s lshape %s (documented: dtype and device of the input)' % (
                        T_.ltype, T_.dtype, tuple(T_.lshape), Y.ltype, Y.dtype, tuple(Y.lshape)))
            return bool(out), '; '.join(out[:2])
        bad, det = attempt2()
        H.prove(nm, [], z3.BoolVal(not bad), key='C06/documented-meta', replay=lambda model, a=attempt2: a())


# ------------------------------------------------------------------------------------------------ non-mutation
QUICK = [True]


def pure_calls():
    """(name, builder(m) -> (args: list of tensors to watch, thunk)) for public functions without trailing underscore"""
    calls = []

    def lt(g, m, nm, seed, shape=()):
        X = rand_group(g, seed, shape=shape)
        m.symbolic(X, nm)
        return X

    def vec(m, shape, nm, seed):
        gen = torch.Generator().manual_seed(seed)
        p = torch.randn(*shape, dtype=DT, generator=gen)
        m.symbolic(p, nm)
        return p
    for g in (GROUPS if not QUICK[0] else ['SO3', 'SE3']):
        def mk(g=g):
            def build(m):
                X, Y = lt(g, m, 'x', 1, (2,)), lt(g, m, 'y', 2, (2,))
                a = pp.LieTensor(vec(m, (2, ADIM[g]), 'a', 3), ltype=ATYPE[g])
                p = vec(m, (2, 3), 'p', 4)
                thunks = [('Log', lambda: X.Log()), ('Inv', lambda: X.Inv()), ('Mul', lambda: X @ Y), ('Act', lambda: X.Act(p)), ('Adj', lambda: X.Adj(a)),
                          ('AdjT', lambda: X.AdjT(a)), ('Retr', lambda: X.Retr(a)), ('add', lambda: X + a.tensor()), ('matrix', lambda: X.matrix()),
                          ('Exp', lambda: a.Exp()), ('rotation', lambda: X.rotation()), ('Jinvp', lambda: X.Jinvp(a)), ('euler', lambda: X.euler()),
                          ('quat2unit', lambda: pp.quat2unit(X)), ('cumprod', lambda: pp.cumprod(X, 0)), ('cummul', lambda: pp.cummul(X, 0)),
                          ('from_matrix', lambda: pp.from_matrix(X.matrix(), GTYPE[g], check=False)), ('tensor', lambda: X.tensor() * 1.0),
                          ('geodesic_loss', lambda: pp.geodesic_loss(X, Y))]
                return [X, Y, a, p], thunks
            return build
        calls.append(('lietensor/%s' % g, mk()))

    def build_geo(m):
        P = vec(m, (4, 3), 'p', 5)
        Q = vec(m, (4, 3), 'q', 6)
        K = torch.tensor([[300.0, 0, 160], [0, 300.0, 120], [0, 0, 1]], dtype=DT)
        thunks = [('knn', lambda: pp.knn(P[:2], Q[:2], k=2)), ('nbr_filter', lambda: pp.nbr_filter(P[:2], 1, 1.0)), ('voxel_filter', lambda: pp.voxel_filter(P, [0.5, 0.5, 0.5])),
                  ('knn_filter', lambda: pp.knn_filter(P, 1)), ('random_filter', lambda: pp.random_filter(P, 2)), ('svdtf', lambda: pp.svdtf(P, Q)),
                  ('cart2homo', lambda: pp.cart2homo(P)), ('homo2cart', lambda: pp.homo2cart(P)), ('point2pixel', lambda: pp.point2pixel(P + torch.tensor([0, 0, 5.0], dtype=DT), K)),
                  ('chspline', lambda: pp.chspline(P, 0.5)), ('bmv', lambda: pp.bmv(P[:3].clone().T.contiguous(), Q[0]))]
        return [P, Q], thunks
    calls.append(('geometry', build_geo))

    def build_metric(m):
        R = lt('SE3', m, 'r', 7, (3,))
        E = lt('SE3', m, 'e', 8, (3,))
        st1 = torch.arange(3, dtype=torch.float64)
        st2 = torch.arange(3, dtype=torch.float64)
        m.symbolic(st1, 's', sort='real') if False else None
        thunks = [('ape(offset)', lambda: pp.metric.ape(st1, R, st2, E, offset=0.004)), ('rpe(offset)', lambda: pp.metric.rpe(st1, R, st2, E, offset=-0.003))]
        return [R, E, st1, st2], thunks
    calls.append(('metric', build_metric))
    return calls


def case_nonmutation(H):
    QUICK[0] = H.quick
    for cname, build in pure_calls():
        # each thunk in its own engine run (fresh symbolic arguments), all decision paths
        probe_ctx = Ctx()
        with SymMode(probe_ctx) as m0:
            _, thunks0 = build(m0)
        for ti, (tname, _) in enumerate(thunks0):
            name = 'C06/non-mutation/%s/%s' % (cname, tname)

            def prog(m, ti=ti):
                m.ctx.havoc_unknown = True
                m.ctx.median_havoc = True
                args, thunks = build(m)
                before = [(a, m.terms(a.tensor() if isinstance(a, pp.LieTensor) else a), (a.tensor() if isinstance(a, pp.LieTensor) else a).detach().clone()) for a in args]
                thunks[ti][1]()
                changed = []
                for k, (a, t0, c0) in enumerate(before):
                    at = a.tensor() if isinstance(a, pp.LieTensor) else a
                    t1 = m.terms(at)
                    same_terms = all((u is None and v is None) or (u is not None and v is not None and u.eq(v)) for u, v in zip(t0, t1))
                    same_payload = True
                    if all(u is None for u in t0):
                        same_payload = bool(torch.equal(at.detach(), c0))
                    if not (same_terms and same_payload):
                        changed.append(k)
                return changed

            def on_raise(ctx, e):
                H.absorb(ctx)      # a raising call cannot have been observed mutating; ignore

            def replay(model, cname=cname, ti=ti, tname=tname, build=build):
                # concrete re-runs without the engine on a small battery of argument variations (as built / negated quaternions and
                # vectors / scaled by 2): confirms that some argument's payload is overwritten
                for variant in ('as-built', 'negated', 'scaled'):
                    ctxr = Ctx()
                    with SymMode(ctxr) as mr:
                        args, thunks = build(mr)
                        ctxr.shadow.clear()
                    with torch.no_grad():
                        for a in args:
                            at = a.tensor() if isinstance(a, pp.LieTensor) else a
                            if at.dtype.is_floating_point and variant == 'negated':
                                at.mul_(-1.0)
                            elif at.dtype.is_floating_point and variant == 'scaled':
                                at.mul_(2.0)
                    before = [(a.tensor() if isinstance(a, pp.LieTensor) else a).detach().clone() for a in args]
                    try:
                        thunks[ti][1]()
                    except Exception:
                        pass
                    diffs = [k for k, a in enumerate(args) if not torch.equal((a.tensor() if isinstance(a, pp.LieTensor) else a).detach(), before[k])]
                    if diffs:
                        return True, '%s changed the values of its argument(s) %s in place (arguments %s)' % (tname, diffs, variant)
                return False, 'no argument changed on the replay battery'
            try:
                for ctx, changed in run_paths(H, name, prog, max_paths=(8 if H.quick else 96), max_decisions=40, raised=on_raise, feas_timeout_ms=(250 if H.quick else 1500)):
                    H.prove('%s/path%d' % (name, H.paths), [], z3.BoolVal(not changed), replay=replay, key='C06/non-mutation/%s' % tname)
            except Exception as e:
                H.engine_error(name, e)


# ------------------------------------------------------------------------------------------------ un-patching (CrossHair)
def crosshair_part(H):
    from symx.harness import Ob
    for fn_name in ('retain_ltype_spec', 'jacrev_spec'):
        t0 = time.time()
        lines = open(SPEC).read().splitlines()
        target = [i + 1 for i, l in enumerate(lines) if l.startswith('def %s' % fn_name)][0]
        budget = 60 if H.quick else 240
        cmd = [sys.executable, '-W', 'ignore', '-m', 'crosshair', 'check', '--report_all', '--per_condition_timeout', str(budget), '%s:%d' % (SPEC, target + 2)]
        try:
            p = subprocess.run(cmd, capture_output=True, text=True, timeout=budget * 2 + 120, env=dict(os.environ, PYTHONPATH=os.pathsep.join(['/verif'] + [p_ for p_ in os.environ.get('PYTHONPATH', '').split(os.pathsep) if p_])))
            out = p.stdout + p.stderr
        except subprocess.TimeoutExpired:
            out = 'timeout'
        ob = Ob('C06/unpatch/%s(CrossHair)' % fn_name, [], z3.Bool('patched_internals_restored_' + fn_name), 'prove', budget)
        ob.res = {'result': 'unknown', 'strategy': 'crosshair', 'time': time.time() - t0}
        if 'Confirmed over all paths' in out:
            ob.status, ob.res['result'], ob.detail = 'unsat', 'unsat', 'CrossHair: Confirmed over all paths'
        else:
            mm = re.search(r'error: (.*?) when calling (%s\(.*\))' % fn_name, out)
            if mm:
                import importlib.util
                spec = importlib.util.spec_from_file_location('c06_spec', SPEC)
                mod = importlib.util.module_from_spec(spec)
                spec.loader.exec_module(mod)
                try:
                    ok = eval(mm.group(2), {fn_name: getattr(mod, fn_name)})
                except Exception as e:
                    ok = 'raised %s' % type(e).__name__
                if ok is not True:
                    ob.status, ob.detail = 'violation', 'CrossHair counterexample reproduces: %s -> %s' % (mm.group(2), ok)
                    H.violation('C06/unpatch', ob.detail, {'call': mm.group(2)})
                else:
                    ob.status, ob.detail = 'sat-spurious', 'CrossHair counterexample did not reproduce'
            else:
                ob.status, ob.detail = 'unknown', 'CrossHair inconclusive: %s' % out.strip().splitlines()[-1:]
        H.obs.append(ob)
        H.extra.setdefault('crosshair', []).append([l for l in out.splitlines() if 'c06_spec' in l][:3])


def run(H):
    H.assumptions += ['exact real arithmetic', 'CPU tensors', 'non-mutation: operators without a handler havoc their outputs (only writes into argument memory matter)']
    H.bounds += ['lshapes: rank <= 2, extents {0,1,2} (quick) / rank <= 3, extents {0,1,2,3} (thorough), every broadcastable pair',
                 'groups SO3 and SE3 for the polynomial operations (quick), all four (thorough); Exp/Log batches of <= 2 items',
                 'non-mutation: curated list of public calls (listed in the evidence samples)', 'call order: unary operations first called on rank 3, then 2, 1, 0 batches in a fresh process, then in ascending order']
    shp = lshapes(H.quick)
    groups = ['SO3', 'SE3'] if H.quick else GROUPS
    t0 = time.time()
    # call-order configuration: the very first calls in this process go from the highest batch rank down (a result must not
    # depend on what was called before; the main loops below go upwards)
    for g in groups:
        for opname in UNARY:
            for sa in ((2, 1, 2), (1, 2), (2,), ()):
                case_unary(H, g, opname, sa, tag='/first-calls-descending-rank')
    for g in groups:
        for opname in BINARY:
            pairs = [(a, b) for a in shp for b in shp if broadcastable(a, b) is not None]
            if H.quick:
                pairs = [pr for k, pr in enumerate(pairs) if (k + len(opname)) % (4 if g == 'SO3' else 7) == 0 or pr[0] == () or pr[1] == ()]
            else:
                # every pair of rank <= 2 / extents <= 2 (exhaustive), plus a deterministic stride through the rank-3 / extent-3 pairs
                small = [pr for pr in pairs if len(pr[0]) <= 2 and len(pr[1]) <= 2 and max(pr[0] + pr[1] + (0,)) <= 2]
                rest = [pr for pr in pairs if pr not in set(small)]
                step = max(1, len(rest) // 120)
                pairs = small + rest[(len(opname) + len(g)) % step::step]
                H.notes.append('%s/%s: %d lshape pairs (all %d small ones + every %d-th of %d larger ones)' % (g, opname, len(pairs), len(small), step, len(rest)))
            for sa, sb in pairs:
                n = 1
                for s in broadcastable(sa, sb):
                    n *= s
                if n > 8:
                    continue
                case_binary(H, g, opname, sa, sb)
        for opname in UNARY:
            for sa in shp:
                n = 1
                for s in sa:
                    n *= s
                if n <= 8:
                    case_unary(H, g, opname, sa)
    H.notes.append('batch cases built in %.1fs' % (time.time() - t0))
    for g, sa in ((('SO3', (2,)), ('SE3', (1, 2))) if H.quick else (('SO3', (2,)), ('SE3', (1, 2)), ('RxSO3', (2, 1)), ('Sim3', (2,)))):
        try:
            case_explog_batch(H, g, sa)
        except Exception as e:
            H.engine_error('explog', e)
    for g, sa, sb in ((('SO3', (), (2,)), ('SO3', (1,), (2,)), ('SE3', (2,), ())) if H.quick else
                      (('SO3', (), (2,)), ('SO3', (1,), (2,)), ('SE3', (2,), ()), ('SE3', (2, 1), (1, 2)), ('RxSO3', (), (2,)), ('Sim3', (1,), (2,)))):
        try:
            case_add_batch(H, g, sa, sb)
        except Exception as e:
            import traceback; traceback.print_exc()
            H.engine_error('add-batch', e)
    for g in (['SE3'] if H.quick else ['SO3', 'SE3', 'RxSO3']):
        try:
            case_jinvp_batch(H, g)
        except Exception as e:
            import traceback; traceback.print_exc()
            H.engine_error('jinvp-batch', e)
    for g in (['SE3'] if H.quick else GROUPS):
        try:
            case_shape_functions(H, g)
        except Exception as e:
            import traceback; traceback.print_exc()
            H.engine_error('shape-functions', e)
    for g in (['SO3', 'Sim3'] if H.quick else GROUPS):
        try:
            case_empty_and_documented_meta(H, g)
        except Exception as e:
            import traceback; traceback.print_exc()
            H.engine_error('empty/meta', e)
    try:
        case_nonmutation(H)
    except Exception as e:
        import traceback; traceback.print_exc()
        H.engine_error('non-mutation', e)
    try:
        crosshair_part(H)
    except Exception as e:
        import traceback; traceback.print_exc()
        H.engine_error('crosshair', e)
    return H.finish(explanation=EXPLAIN)
