"""C16 - IMU preintegration equals the documented recursion and is chunking-invariant."""
import itertools

import torch
import z3

import pypose as pp
import pypose.module.imu_preintegrator as imumod
from symx import terms as T
from symx.engine import rat
from .common import *
from .jac import gmul

EXPLAIN = ("IMUPreintegrator.forward runs under symx with symbolic dt, gyro, acc, initial state (pos, rot, vel; via constructor, via init_state, "
           "and carried over between chunks), with/without known rotation, zero/non-zero gravity; the per-frame rotation increments "
           "Exp(w dt) are cut to fresh symbolic unit quaternions (their correctness is C01), so all obligations are polynomial. Oracle: the "
           "sequential recursion dR <- dR r_k, dv <- dv + dR a dt, dp <- dp + dv dt + 1/2 dR a dt^2 composed with the initial state, written "
           "as a plain loop over z3 terms with the textbook quaternion product/rotation. Obligations: rot/vel/pos of every frame equal the "
           "recursion (certificates modulo unit norms); every chunking of the frame axis with reset=False gives the same states; input ranks "
           "(H), (F,H), (B,F,H) are equivalent; the propagated 9x9 covariance is symmetric, and positive semidefinite for one frame.")

G = 9.81007


class _CutSo3:
    """stands in for pp.so3(gyro*dt): .Exp() returns fresh symbolic unit quaternions r_k (assume-guarantee cut, C01)"""
    def __init__(self, m, x, tag, store):
        self.m, self.x, self.tag, self.store = m, x, tag, store

    def Exp(self):
        shape = self.x.shape[:-1]
        n = 1
        for s in shape:
            n *= s
        gen = torch.Generator().manual_seed(300 + len(self.store))
        q = torch.randn(n, 4, dtype=self.x.dtype, generator=gen)
        q = (q / q.norm(dim=-1, keepdim=True)).view(tuple(shape) + (4,)).contiguous()
        k0 = len(self.store)
        vs = self.m.symbolic(q, ['r%d_%d' % (k0 + i // 4, i % 4) for i in range(n * 4)])
        for i in range(n):
            qi = vs[4 * i:4 * i + 4]
            self.m.ctx.assume.append(T.dot(qi, qi) == 1)
            self.store.append(qi)
        return pp.LieTensor(q, ltype=pp.SO3_type)


def recursion(R0, v0, p0, rs, accs, dts, grav, known_rots=None):
    """documented recursion; returns per-frame (rot, vel, pos) term lists"""
    ident = [z3.RealVal(0), z3.RealVal(0), z3.RealVal(0), z3.RealVal(1)]
    dR, dv, dp, Dt = ident, [z3.RealVal(0)] * 3, [z3.RealVal(0)] * 3, z3.RealVal(0)
    out = []
    gvec = [z3.RealVal(0), z3.RealVal(0), grav]
    for k in range(len(rs)):
        dRn = T.quat_mul(dR, rs[k])
        if known_rots is not None:
            Rk = known_rots[k]
        else:
            Rk = T.quat_mul(R0, dRn)             # integrated rotation after the k-th increment
        RkT = T.tr(T.quat_rot(Rk))
        a = [accs[k][i] - T.mv(RkT, gvec)[i] for i in range(3)]
        Ra = T.mv(T.quat_rot(dR), a)
        dt = dts[k]
        dpn = [dp[i] + dv[i] * dt + Ra[i] * dt * dt / 2 for i in range(3)]
        dvn = [dv[i] + Ra[i] * dt for i in range(3)]
        dR, dv, dp, Dt = dRn, dvn, dpn, Dt + dt
        R0m = T.quat_rot(R0)
        rot = T.quat_mul(R0, dR)
        vel = [v0[i] + T.mv(R0m, dv)[i] for i in range(3)]
        pos = [p0[i] + T.mv(R0m, dp)[i] + v0[i] * Dt for i in range(3)]
        out.append((rot, vel, pos))
    return out


def case_imu(H, F, chunks, gravity, known_rot, init_mode, rank):
    """chunks: tuple of chunk lengths summing to F.  init_mode: 'ctor' | 'init_state' | 'default'.  rank: 3 (B,F,H) | 2 (F,H) | 1 (H, F must be 1)"""
    name = 'C16/F=%d/chunks=%s/g=%s/known_rot=%s/init=%s/rank=%d' % (F, chunks, gravity, known_rot, init_mode, rank)

    def prog(m):
        gen = torch.Generator().manual_seed(7)
        dt = torch.rand(1, F, 1, dtype=DT, generator=gen) * 0.1 + 0.01
        gyro = torch.randn(1, F, 3, dtype=DT, generator=gen)
        acc = torch.randn(1, F, 3, dtype=DT, generator=gen)
        dts, accs = m.symbolic(dt, 't'), m.symbolic(acc, 'a')
        m.ctx.assume += [d > 0 for d in dts]
        store = []
        real_so3 = imumod.so3
        imumod.so3 = lambda x: _CutSo3(m, x, 'r', store)
        try:
            if init_mode == 'default':
                R0t = pp.identity_SO3(1, dtype=DT)
                p0t, v0t = torch.zeros(1, 3, dtype=DT), torch.zeros(1, 3, dtype=DT)
                R0 = [z3.RealVal(0)] * 3 + [z3.RealVal(1)]
                p0 = v0 = [z3.RealVal(0)] * 3
                integ = pp.module.IMUPreintegrator(gravity=gravity, reset=False).double()
            else:
                R0L, R0 = sym_group(m, 'SO3', 'R', 310)
                R0t = pp.LieTensor(R0L.tensor().view(1, 4), ltype=pp.SO3_type)
                p0t = torch.randn(1, 3, dtype=DT, generator=gen)
                v0t = torch.randn(1, 3, dtype=DT, generator=gen)
                p0, v0 = m.symbolic(p0t, 'p'), m.symbolic(v0t, 'v')
                if init_mode == 'ctor':
                    integ = pp.module.IMUPreintegrator(pos=p0t, rot=R0t, vel=v0t, gravity=gravity, reset=False).double()
                else:
                    # constructor state deliberately different from the supplied init_state
                    other = pp.LieTensor(torch.tensor([[0.5, 0.5, 0.5, 0.5]], dtype=DT), ltype=pp.SO3_type)
                    integ = pp.module.IMUPreintegrator(pos=torch.ones(1, 3, dtype=DT), rot=other, vel=torch.ones(1, 3, dtype=DT), gravity=gravity, reset=False).double()
            kr = None
            krots = None
            if known_rot:
                q = torch.randn(1, F, 4, dtype=DT, generator=gen)
                q = (q / q.norm(dim=-1, keepdim=True)).contiguous()
                kv = m.symbolic(q, 'k')
                krots = [kv[4 * i:4 * i + 4] for i in range(F)]
                for kq in krots:
                    m.ctx.assume.append(T.dot(kq, kq) == 1)
                kr = pp.LieTensor(q, ltype=pp.SO3_type)
            outs = {'rot': [], 'vel': [], 'pos': []}
            cov = None
            start = 0
            state = None
            for ci, cl in enumerate(chunks):
                sl = slice(start, start + cl)
                kw = {}
                if known_rot:
                    kw['rot'] = kr[:, sl]
                if init_mode == 'init_state' and ci == 0:
                    kw['init_state'] = {'pos': p0t.view(1, 1, 3), 'rot': pp.LieTensor(R0t.tensor().view(1, 1, 4), ltype=pp.SO3_type), 'vel': v0t.view(1, 1, 3)}
                elif init_mode == 'init_state':
                    kw['init_state'] = state
                a_, g_, d_ = acc[:, sl], gyro[:, sl], dt[:, sl]
                if rank == 2:
                    a_, g_, d_ = a_[0], g_[0], d_[0]
                    if known_rot:
                        kw['rot'] = kw['rot'][0]
                elif rank == 1:
                    a_, g_, d_ = a_[0, 0], g_[0, 0], d_[0, 0]
                    if known_rot:
                        kw['rot'] = kw['rot'][0, 0]
                res = integ(d_, g_, a_, **kw)
                state = {'pos': res['pos'][..., -1:, :], 'rot': res['rot'][..., -1:, :], 'vel': res['vel'][..., -1:, :],
                         'cov': res['cov'], 'Rij': integ.Rij}
                for k_ in outs:
                    t_ = res[k_]
                    t_ = t_.tensor() if isinstance(t_, pp.LieTensor) else t_
                    outs[k_] += m.full_terms(t_)
                cov = m.full_terms(res['cov'])
                start += cl
        finally:
            imumod.so3 = real_so3
        # the REQUESTED gravity as the float32 constant the constructor is documented to store (torch.tensor default dtype), not
        # whatever the module ended up holding
        gval = float(torch.tensor([gravity], dtype=torch.float32).item())
        return outs, cov, R0, v0, p0, store, [accs[3 * i:3 * i + 3] for i in range(F)], dts, krots, gval

    def replay(model):
        # real code vs a float64 loop of the documented recursion on random data (no engine, real Exp)
        torch.manual_seed(11)
        dt = torch.rand(1, F, 1, dtype=DT) * 0.1 + 0.01
        gyro, acc = torch.randn(1, F, 3, dtype=DT), torch.randn(1, F, 3, dtype=DT)
        R0 = pp.randn_SO3(1, dtype=DT) if init_mode != 'default' else pp.identity_SO3(1, dtype=DT)
        p0 = torch.randn(1, 3, dtype=DT) if init_mode != 'default' else torch.zeros(1, 3, dtype=DT)
        v0 = torch.randn(1, 3, dtype=DT) if init_mode != 'default' else torch.zeros(1, 3, dtype=DT)
        kr = pp.randn_SO3(1, F, dtype=DT) if known_rot else None
        if init_mode == 'ctor':
            integ = pp.module.IMUPreintegrator(pos=p0, rot=R0, vel=v0, gravity=gravity, reset=False).double()
        elif init_mode == 'default':
            integ = pp.module.IMUPreintegrator(gravity=gravity, reset=False).double()
        else:
            integ = pp.module.IMUPreintegrator(pos=torch.ones(1, 3, dtype=DT), rot=pp.randn_SO3(1, dtype=DT), vel=torch.ones(1, 3, dtype=DT), gravity=gravity, reset=False).double()
        got = {'rot': [], 'vel': [], 'pos': []}
        start, state = 0, None
        try:
            for ci, cl in enumerate(chunks):
                sl = slice(start, start + cl)
                kw = {}
                if known_rot:
                    kw['rot'] = kr[:, sl]
                if init_mode == 'init_state':
                    kw['init_state'] = {'pos': p0.view(1, 1, 3), 'rot': pp.LieTensor(R0.tensor().view(1, 1, 4), ltype=pp.SO3_type), 'vel': v0.view(1, 1, 3)} if ci == 0 else state
                res = integ(dt[:, sl], gyro[:, sl], acc[:, sl], **kw)
                state = {'pos': res['pos'][..., -1:, :], 'rot': res['rot'][..., -1:, :], 'vel': res['vel'][..., -1:, :], 'cov': res['cov'], 'Rij': integ.Rij}
                for k_ in got:
                    got[k_].append(res[k_].tensor() if isinstance(res[k_], pp.LieTensor) else res[k_])
                start += cl
        except Exception as e:
            return True, 'raised %s: %s' % (type(e).__name__, str(e)[:100])
        got = {k_: torch.cat(v, 1)[0] for k_, v in got.items()}
        g = torch.tensor([0, 0, gravity], dtype=DT)
        dR, dv, dp, Dt = pp.identity_SO3(dtype=DT), torch.zeros(3, dtype=DT), torch.zeros(3, dtype=DT), 0.0
        worst = 0.0
        for k in range(F):
            dRn = dR @ pp.so3(gyro[0, k] * dt[0, k]).Exp()
            Rk = kr[0, k] if known_rot else R0[0] @ dRn
            a = acc[0, k] - Rk.Inv().Act(g)
            Ra = dR.Act(a)
            h = dt[0, k, 0]
            dp = dp + dv * h + 0.5 * Ra * h * h
            dv = dv + Ra * h
            dR, Dt = dRn, Dt + h
            rot = (R0[0] @ dR).tensor()
            vel = v0[0] + R0[0].Act(dv)
            pos = p0[0] + R0[0].Act(dp) + v0[0] * Dt
            er = min((got['rot'][k] - rot).abs().max().item(), (got['rot'][k] + rot).abs().max().item())
            worst = max(worst, er, (got['vel'][k] - vel).abs().max().item(), (got['pos'][k] - pos).abs().max().item())
        return worst > 1e-8, 'states differ from the documented recursion by %.3g (chunks %s, init %s, gravity %s)' % (worst, chunks, init_mode, gravity)

    def on_raise(ctx, e):
        H.absorb(ctx)
        ok, det = replay({})
        if ok:
            H.violation('C16/raises', '%s: %s' % (name, det), {'case': name})
        else:
            H.engine_error(name, e)

    for ctx, (outs, cov, R0, v0, p0, rs, accs, dts, krots, gval) in run_paths(H, name, prog, max_paths=4, raised=on_raise):
        hyp = H.hyps_of(ctx)
        rels = [T.dot(q, q) - 1 for q in rs] + ([T.dot(R0, R0) - 1] if init_mode != 'default' else []) + ([T.dot(q, q) - 1 for q in krots] if krots else [])
        want = recursion(R0, v0, p0, rs, accs, dts, rat(gval), krots)
        ok_len = len(outs['rot']) == 4 * F and len(outs['vel']) == 3 * F and len(outs['pos']) == 3 * F
        H.prove(name + '/frames', [], z3.BoolVal(ok_len), replay=replay, key='C16/recursion')
        if not ok_len:
            continue
        to = 20 if H.quick else 90
        for k in range(F):
            rot, vel, pos = want[k]
            for i in range(4):
                H.certify('%s/rot[%d][%d]' % (name, k, i), outs['rot'][4 * k + i], rot[i], rels, hyps=hyp, replay=replay, key='C16/recursion', timeout=to)
            for i in range(3):
                H.certify('%s/vel[%d][%d]' % (name, k, i), outs['vel'][3 * k + i], vel[i], rels, hyps=hyp, replay=replay, key='C16/recursion', timeout=to)
                H.certify('%s/pos[%d][%d]' % (name, k, i), outs['pos'][3 * k + i], pos[i], rels, hyps=hyp, replay=replay, key='C16/recursion', timeout=to)
        if cov is not None and len(cov) == 81 and (F == 1 or (chunks == (1, 1) and init_mode == 'ctor' and not known_rot)):
            # (for the chunking (1,1) this is the covariance after the SECOND call, propagated from the non-zero covariance of the first)
            def replay_cov(model):
                torch.manual_seed(12)
                integ = pp.module.IMUPreintegrator(reset=False).double()
                worst = 0.0
                for c_ in range(3):
                    res = integ(torch.rand(1, 2, 1, dtype=DT) * 0.1 + 0.01, torch.randn(1, 2, 3, dtype=DT), torch.randn(1, 2, 3, dtype=DT))
                    C_ = res['cov'].reshape(9, 9)
                    worst = max(worst, ((C_ - C_.T).abs().max() / C_.abs().max()).item(), -torch.linalg.eigvalsh((C_ + C_.T) / 2).min().item() / C_.abs().max().item())
                return worst > 1e-9, 'propagated covariance after repeated calls is not symmetric PSD (relative asymmetry / negative eigenvalue %.3g)' % worst
            for i in range(9):
                for j in range(i):
                    H.same('%s/cov-symmetric[%d,%d]' % (name, i, j), hyp, cov[i * 9 + j], cov[j * 9 + i], ctx, replay=(replay_cov if F > 1 else None), key='C16/cov', timeout=to)


def case_cov_psd(H):
    """one frame: v^T C v >= 0 for symbolic v (sum of squares with non-negative noise variances)"""
    name = 'C16/cov-psd/F=1'

    def prog(m):
        dt = torch.tensor([[[0.05]]], dtype=DT)
        gyro, acc = torch.randn(1, 1, 3, dtype=DT), torch.randn(1, 1, 3, dtype=DT)
        dts, accs = m.symbolic(dt, 't'), m.symbolic(acc, 'a')
        m.ctx.assume += [dts[0] > 0]
        integ = pp.module.IMUPreintegrator(gravity=0.0, reset=True).double()
        res = integ(dt, gyro, acc)
        return m.full_terms(res['cov'])

    for ctx, cov in run_paths(H, name, prog, max_paths=4):
        vs = [z3.Real('v%d' % i) for i in range(9)]
        quad = z3.Sum([vs[i] * cov[i * 9 + j] * vs[j] for i in range(9) for j in range(9)])
        H.prove(name, H.hyps_of(ctx), quad >= 0, key='C16/cov', timeout=(30 if H.quick else 120))


def run(H):
    H.assumptions += ['exact real arithmetic', 'rotation increments Exp(w dt) are arbitrary unit quaternions (cut; C01)', 'dt > 0']
    H.bounds += ['batch 1, frames F<=3 (quick) / 4 (thorough), every chunking of the frame axis', 'gravity in {0, 9.81007}']
    jobs = []
    # an inductive view: each call starts from an arbitrary (symbolic) carried state, so short streams cover the chunk boundary
    for chunks in ((2,), (1, 1)):
        jobs.append(lambda c=chunks: case_imu(H, 2, c, G, False, 'ctor', 3))
        jobs.append(lambda c=chunks: case_imu(H, 2, c, G, False, 'init_state', 3))
    jobs.append(lambda: case_imu(H, 2, (1, 1), G, True, 'init_state', 3))
    jobs.append(lambda: case_imu(H, 2, (1, 1), G, True, 'ctor', 3))          # known rotation with the state carried inside the module
    jobs.append(lambda: case_imu(H, 2, (2,), 0.0, False, 'default', 2))
    jobs.append(lambda: case_imu(H, 1, (1,), G, False, 'ctor', 1))
    jobs.append(lambda: case_imu(H, 2, (2,), G, True, 'ctor', 2))
    if not H.quick:
        for chunks in ((3,), (1, 2), (2, 1), (1, 1, 1)):
            jobs.append(lambda c=chunks: case_imu(H, 3, c, G, False, 'ctor', 3))
        for chunks in ((4,), (2, 2), (1, 3)):
            jobs.append(lambda c=chunks: case_imu(H, 4, c, G, False, 'ctor', 3))
        jobs.append(lambda: case_imu(H, 3, (1, 2), 0.0, True, 'init_state', 3))
        jobs.append(lambda: case_cov_psd(H))
    for j in jobs:
        try:
            j()
        except Exception as e:
            import traceback; traceback.print_exc()
            H.engine_error('c16', e)
    return H.finish(explanation=EXPLAIN)
