"""C09 - robust kernels match their closed forms; correctors preserve the robust gradient and Hessian."""
import math

import torch
import z3

import pypose as pp
import pypose.optim.kernel as K
import pypose.optim.corrector as C
from symx import terms as T
from symx.engine import rat
from symx.terms import diff, subst
from .common import *

EXPLAIN = ("Each kernel's real forward runs under symx on symbolic non-negative input (every mask path); obligations: equality with "
           "the closed form transcribed from the documentation, rho(0)=0, finiteness (NaN/Inf 'poison' tracking), monotonicity on a "
           "symbolic pair 0<=x<=y, Huber value/slope continuity at the threshold, and rejection of negative input (the non-raising "
           "path must be infeasible). Correctors: FastTriggs/Triggs run with real autograd (rho', rho'' computed by torch under the engine) on "
           "symbolic residuals and Jacobians for built-in and user kernels with rho''>0,=0,<0; obligations J'^T R' = sum rho' J_i^T R_i and "
           "the Triggs Hessian identity row by row (rho'/rho'' of the oracle come from symbolic differentiation of the documented formula).")


def kernels(quick):
    ks = []
    for d in ([1.0, 0.5] if quick else [1.0, 0.5, 2.0, 3.0]):
        d2 = rat(d) * rat(d)
        dd = rat(d)
        ks += [
            ('Huber(%g)' % d, lambda d=d: K.Huber(d), None),
            ('PseudoHuber(%g)' % d, lambda d=d: K.PseudoHuber(d), lambda c, x, d2=d2: 2 * d2 * (c.tfun('sqrt', x / d2 + 1) - 1)),
            ('Cauchy(%g)' % d, lambda d=d: K.Cauchy(d), lambda c, x, d2=d2: d2 * c.tfun('log', x / d2 + 1)),
            ('SoftLOne(%g)' % d, lambda d=d: K.SoftLOne(d), lambda c, x, d2=d2, dd=dd: 2 * (dd * c.tfun('sqrt', 1 / d2 + x) - 1)),
            ('Arctan(%g)' % d, lambda d=d: K.Arctan(d), lambda c, x, d2=d2: d2 * c.tfun('atan', x / d2)),
        ]
        if d <= 1:
            ks.append(('Scale(%g)' % d, lambda d=d: K.Scale(d), lambda c, x, dd=dd: dd * x))
    for a, b in ([(1.0, -1.0)] if quick else [(1.0, -1.0), (2.0, -0.5), (0.5, -2.0)]):
        ra, rb = rat(a), rat(b)
        ks.append(('Tolerant(%g,%g)' % (a, b), lambda a=a, b=b: K.Tolerant(a, b),
                   lambda c, x, ra=ra, rb=rb: rb * c.tfun('log', 1 + c.tfun('exp', (x - ra) / rb)) - rb * c.tfun('log', 1 + c.tfun('exp', -ra / rb))))
    return ks


def huber_doc(c, x, d):
    dd = rat(d)
    return z3.If(c.tfun('sqrt', x) < dd, x, 2 * dd * c.tfun('sqrt', x) - dd * dd)


def case_kernel(H, kname, mk, doc):
    name = 'C09/kernel/' + kname
    tolc = z3.RealVal('1/1000000000000')     # constants computed in floating point by the library (Tolerant's offset)

    def prog(m):
        x = torch.tensor([0.7, 1.9], dtype=DT)
        xs = m.symbolic(x, 'x')
        m.ctx.assume += [xs[0] >= 0, xs[1] >= xs[0]]
        y = mk()(x)
        return m.full_terms(y), m.poisons(y), xs, m, y

    def mk_replay(xs):
        def replay(model):
            v = [float(model.get(str(s), 0.0)) for s in xs]
            if min(v) < 0:
                return False, 'model outside precondition'
            xx = torch.tensor(v, dtype=DT)
            y = mk()(xx)
            y0 = mk()(torch.zeros(1, dtype=DT))
            bad = (not torch.isfinite(y).all()) or (v[0] <= v[1] and y[0] > y[1] + 1e-12) or abs(y0.item()) > 1e-9
            # closed form
            import mpmath
            return bool(bad), 'kernel(%s) = %s, kernel(0) = %s' % (v, y.tolist(), y0.item())
        return replay

    for ctx, (y, py, xs, m, yt) in run_paths(H, name, prog, track_poison=True, max_paths=16):
        selftest(H, ctx, m, [(y, yt)], name)
        hyp = H.hyps_of(ctx)
        pn = H.paths
        rp = mk_replay(xs)
        d = float(kname.split('(')[1].split(',')[0].rstrip(')'))
        for i in range(2):
            form = doc(ctx, xs[i]) if doc is not None else huber_doc(ctx, xs[i], d)
            hyp2 = H.hyps_of(ctx)
            dd = y[i] - form
            H.prove('%s/path%d/closed-form[%d]' % (name, pn, i), hyp2, z3.And(dd <= tolc, dd >= -tolc), replay=rp, key='C09/kernel/%s/closed-form' % kname.split('(')[0])
            if py[i] is not None:
                H.prove('%s/path%d/finite[%d]' % (name, pn, i), hyp2, z3.Not(py[i]), replay=rp, key='C09/kernel/%s/finite' % kname.split('(')[0])
        hyp = H.hyps_of(ctx)
        H.prove('%s/path%d/monotone' % (name, pn), hyp, y[0] <= y[1], replay=rp, key='C09/kernel/%s/monotone' % kname.split('(')[0])
        H.prove('%s/path%d/zero-at-zero' % (name, pn), hyp + [xs[0] == 0], z3.And(y[0] <= tolc, y[0] >= -tolc), replay=rp,
                key='C09/kernel/%s/zero' % kname.split('(')[0])
        if pn % 3 == 0:
            H.reach('%s/path%d/reach' % (name, pn), hyp)


def case_kernel_negative(H, kname, mk):
    """negative input must be rejected: under the assumption x<0 no path may return normally"""
    name = 'C09/kernel/%s/rejects-negative' % kname
    returned = []

    def prog(m):
        x = torch.tensor([-0.5], dtype=DT)
        xs = m.symbolic(x, 'x')
        m.ctx.assume += [xs[0] < 0]
        y = mk()(x)
        return xs

    def on_raise(ctx, e):
        H.absorb(ctx)

    def replay(model):
        try:
            y = mk()(torch.tensor([float(model.get('x0', -1.0))], dtype=DT))
        except Exception:
            return False, 'raises as required'
        return True, 'kernel accepted negative input %s and returned %s' % (model.get('x0'), y.tolist())
    n = 0
    for ctx, xs in run_paths(H, name, prog, raised=on_raise, max_paths=8):
        n += 1
        H.prove('%s/non-raising-path%d-infeasible' % (name, n), H.hyps_of(ctx), z3.BoolVal(False), replay=replay,
                key='C09/%s/negative-input' % kname.split('(')[0])
    if n == 0:
        H.prove(name + '/all-paths-raise', [], z3.BoolVal(True), key='C09/%s/negative-input' % kname.split('(')[0])
        H.obs[-1].res = {'result': 'unsat', 'strategy': 'path-pruning', 'time': 0.0}


def case_huber_continuity(H, d):
    """value and slope of the two Huber branches coincide at the threshold x = delta^2 (terms of the two code paths)"""
    name = 'C09/kernel/Huber(%g)/continuity' % d
    branch = {}

    def prog(m):
        x = torch.tensor([0.3], dtype=DT)
        xs = m.symbolic(x, 'x')
        m.ctx.assume += [xs[0] > 0]
        y = K.Huber(d)(x)
        return m.full_terms(y)[0], xs[0], m.ctx
    for ctx, (y, x, c) in run_paths(H, name, prog, max_paths=8):
        inlier = any(('<' in str(p) or 'Not(' not in str(p)) for p in ctx.pc[-1:]) and str(ctx.trace[-1][1]) == 'True'
        branch[bool(ctx.trace[-1][1])] = (ctx, y, x)
    if len(branch) == 2:
        (c1, y1, x1), (c2, y2, x2) = branch[True], branch[False]
        d2 = rat(d) * rat(d)
        # evaluate both branch formulas at the threshold; sqrt(delta^2) = delta is supplied as a definitional fact
        for tag, (c, y, x) in (('a', branch[True]), ('b', branch[False])):
            pass
        s1 = diff(y1, x1, c1.tfvar, c1)
        s2 = diff(y2, x2, c2.tfvar, c2)
        hy = [x1 == d2, x2 == d2] + list(c1.axioms) + list(c2.axioms)
        H.prove(name + '/value', hy, y1 == y2, key='C09/kernel/Huber/continuity')
        H.prove(name + '/slope', hy, s1 == s2, key='C09/kernel/Huber/continuity')
    else:
        H.engine_error(name, Exception('expected two Huber branches, got %d' % len(branch)))


class PolyUp(torch.nn.Module):      # rho'' = 1 > 0
    def forward(self, x):
        return x + 0.5 * x * x


class PolyDown(torch.nn.Module):    # rho'' < 0 on the tested range, rho' > 0 for x < 4
    def forward(self, x):
        return x - 0.125 * x * x


class Ident(torch.nn.Module):       # rho'' = 0
    def forward(self, x):
        return 1.0 * x


def corrector_kernels(quick):
    ks = [('PolyUp', PolyUp, lambda c, x: x + x * x / 2, [lambda x: x < 100]),
          ('Ident', Ident, lambda c, x: x, []),
          ('PolyDown', PolyDown, lambda c, x: x - x * x / 8, [lambda x: x < 3]),
          ('Huber(1)', lambda: K.Huber(1.0), None, []),
          ('Cauchy(1)', lambda: K.Cauchy(1.0), lambda c, x: c.tfun('log', x + 1), [])]
    if not quick:
        ks += [('PseudoHuber(0.5)', lambda: K.PseudoHuber(0.5), lambda c, x: z3.RealVal('1/2') * (c.tfun('sqrt', 4 * x + 1) - 1), []),
               ('Arctan(1)', lambda: K.Arctan(1.0), lambda c, x: c.tfun('atan', x), [])]
    return ks


def case_corrector(H, cname, kname, mk, doc, extra, N, d, k, rshape=None, nograd=False):
    """rshape: shape of the residual tensor handed to the corrector (default (N, d); e.g. (2, N/2, d): two batch dims, as the
    optimizers produce for batched models); nograd: the corrector is called under torch.no_grad(), as GN.step / LM.step do"""
    name = 'C09/corrector/%s/%s/N=%d,d=%d,k=%d' % (cname, kname, N, d, k)
    rshape = (N, d) if rshape is None else tuple(rshape)
    if rshape != (N, d):
        name += '/R-shape=%s' % 'x'.join(map(str, rshape))
    if nograd:
        name += '/under-no_grad'

    def call(R, J):
        if nograd:
            with torch.no_grad():
                return Cor(mk())(R=R.view(rshape), J=J)
        return Cor(mk())(R=R.view(rshape), J=J)
    Cor = {'FastTriggs': C.FastTriggs, 'Triggs': C.Triggs}[cname]

    def prog(m):
        gen = torch.Generator().manual_seed(7)
        R = torch.randn(N, d, dtype=DT, generator=gen) * 0.5
        J = torch.randn(N * d, k, dtype=DT, generator=gen)
        rs = m.symbolic(R, 'r')
        js = m.symbolic(J, 'j')
        for i in range(N):
            xi = z3.Sum([rs[i * d + a] * rs[i * d + a] for a in range(d)])
            for e in extra:
                m.ctx.assume.append(e(xi))
        R2, J2 = call(R, J)
        return m.full_terms(R2), m.full_terms(J2), m.poisons(R2), m.poisons(J2), rs, js, m, R2, J2

    def mk_replay(rs, js):
        def replay(model):
            R = tensor_from_env(names_of(rs), model).view(N, d)
            J = tensor_from_env(names_of(js), model).view(N * d, k)
            R2, J2 = call(R.clone(), J.clone())
            R2 = R2.reshape(N, d)
            if not (torch.isfinite(R2).all() and torch.isfinite(J2).all()):
                return True, 'corrector returned NaN/Inf for R=%s' % R.tolist()
            x = (R * R).sum(-1, keepdim=True).clone().requires_grad_(True)
            with torch.enable_grad():
                y = mk()(x).sum()
                g1 = torch.autograd.grad(y, x, create_graph=True)[0]
                g2 = torch.autograd.grad(g1.sum(), x, allow_unused=True)[0]
            g2 = torch.zeros_like(g1) if g2 is None else g2
            g1, g2 = g1.detach().view(N), g2.detach().view(N)
            Jr = J.view(N, d, k)
            grad = sum(g1[i] * Jr[i].T @ R[i] for i in range(N))
            e1 = (J2.T @ R2.reshape(-1) - grad).abs().max().item()
            msg = 'J\'^T R\' error %.3g' % e1
            bad = e1 > 1e-7 * (1 + grad.abs().max().item())
            if cname == 'Triggs':
                Hs = 0
                for i in range(N):
                    Hs = Hs + g1[i] * Jr[i].T @ Jr[i]
                    if g2[i] > 0 and (R[i] != 0).any():
                        Hs = Hs + 2 * g2[i] * Jr[i].T @ torch.outer(R[i], R[i]) @ Jr[i]
                e2 = (J2.T @ J2 - Hs).abs().max().item()
                msg += ', J\'^T J\' error %.3g' % e2
                bad = bad or e2 > 1e-7 * (1 + Hs.abs().max().item())
            return bool(bad), msg + ' at R=%s' % R.tolist()
        return replay

    def on_raise(ctx, e):
        H.absorb(ctx)
        gen = torch.Generator().manual_seed(7)
        R = torch.randn(N, d, dtype=DT, generator=gen) * 0.5
        J = torch.randn(N * d, k, dtype=DT, generator=gen)
        try:
            call(R, J)
            H.engine_error(name, e)
        except Exception as e2:
            H.violation('C09/%s/raises' % cname, '%s raised %s: %s on a legal kernel/residual' % (name, type(e2).__name__, str(e2)[:100]), {'case': name})

    for ctx, (R2, J2, pR, pJ, rs, js, m, R2t, J2t) in run_paths(H, name, prog, track_poison=True, max_paths=32, raised=on_raise):
        selftest(H, ctx, m, [(R2, R2t), (J2, J2t)], name)
        pn = H.paths
        rp = mk_replay(rs, js)
        kd = float(kname.split('(')[1].rstrip(')')) if '(' in kname else None
        g1s, g2s, xs_ = [], [], []
        for i in range(N):
            xi = z3.simplify(z3.Sum([rs[i * d + a] * rs[i * d + a] for a in range(d)]))
            xv = z3.Real('xq%d' % i)
            form = doc(ctx, xv) if doc is not None else huber_doc(ctx, xv, kd)
            g1 = diff(form, xv, ctx.tfvar, ctx)
            g2 = diff(g1, xv, ctx.tfvar, ctx)
            # re-express at x = |R_i|^2 : substitute, creating abstraction variables for the substituted arguments
            g1s.append(resubst(ctx, g1, xv, xi))
            g2s.append(resubst(ctx, g2, xv, xi))
            xs_.append(xi)
        hyp = H.hyps_of(ctx)
        Jr = [[[js[(i * d + a) * k + c] for c in range(k)] for a in range(d)] for i in range(N)]
        Rr = [[rs[i * d + a] for a in range(d)] for i in range(N)]
        # gradient identity
        for c in range(k):
            lhs = z3.Sum([J2[(i * d + a) * k + c] * R2[i * d + a] for i in range(N) for a in range(d)])
            rhs = z3.Sum([g1s[i] * Jr[i][a][c] * Rr[i][a] for i in range(N) for a in range(d)])
            H.prove('%s/path%d/JtR[%d]' % (name, pn, c), hyp, lhs == rhs, replay=rp, key='C09/%s/JtR' % cname,
                    neg_margin=z3.Or(lhs - rhs > z3.RealVal('1/1000'), rhs - lhs > z3.RealVal('1/1000')))
        if cname == 'Triggs':
            for c1 in range(k):
                for c2 in range(c1, k):
                    lhs = z3.Sum([J2[(i * d + a) * k + c1] * J2[(i * d + a) * k + c2] for i in range(N) for a in range(d)])
                    terms = []
                    for i in range(N):
                        base = g1s[i] * z3.Sum([Jr[i][a][c1] * Jr[i][a][c2] for a in range(d)])
                        jr1 = z3.Sum([Jr[i][a][c1] * Rr[i][a] for a in range(d)])
                        jr2 = z3.Sum([Jr[i][a][c2] * Rr[i][a] for a in range(d)])
                        terms.append(base + z3.If(z3.And(g2s[i] > 0, xs_[i] != 0), 2 * g2s[i] * jr1 * jr2, 0))
                    rhs = z3.Sum(terms)
                    H.prove('%s/path%d/JtJ[%d,%d]' % (name, pn, c1, c2), hyp, lhs == rhs, replay=rp, key='C09/Triggs/JtJ',
                            neg_margin=z3.Or(lhs - rhs > z3.RealVal('1/1000'), rhs - lhs > z3.RealVal('1/1000')))
        # finiteness of the corrected residual/Jacobian, including zero residual rows
        ps = [p for p in pR + pJ if p is not None]
        if ps:
            H.prove('%s/path%d/finite' % (name, pn), hyp, z3.Not(z3.Or(ps)), replay=rp, key='C09/%s/finite' % cname)
        if pn % 4 == 0:
            H.reach('%s/path%d/reach' % (name, pn), hyp)


def resubst(ctx, e, xv, xi):
    """substitute xv := xi in e, re-creating abstraction variables whose arguments mention xv"""
    import z3 as _z
    pairs = [(xv, xi)]
    # abstraction variables depending on xv
    changed = True
    done = {}
    for _ in range(6):
        new = []
        for kk, (f, a, v) in list(ctx.tfvar.items()):
            if kk in done or isinstance(a, tuple):
                continue
            a2 = _z.simplify(_z.substitute(a, *pairs))
            if not a2.eq(a):
                v2 = ctx.tfun(f, a2)
                new.append((v, v2))
                done[kk] = True
        if not new:
            break
        pairs += new
    return _z.simplify(_z.substitute(e, *pairs))


def run(H):
    H.assumptions += ['exact real arithmetic', 'kernel hyper-parameters are concrete (enumerated) Python floats',
                      'the library-side float constant of Tolerant (its offset) is compared with tolerance 1e-12']
    H.bounds += ['corrector configurations: residual shapes (N,d) and (2,N/2,d); called with grad mode on and under torch.no_grad()', 'kernel parameters: delta in {0.5,1} (quick) / {0.5,1,2,3}; Tolerant (a,b) in {(1,-1)} / {(1,-1),(2,-0.5),(0.5,-2)}',
                 'correctors: N<=2 residual rows, d<=2, k<=2 (thorough: d=3 for FastTriggs)']
    for kname, mk, doc in kernels(H.quick):
        if getattr(H, 'only', None) and H.only not in kname:
            continue
        try:
            case_kernel(H, kname, mk, doc)
            case_kernel_negative(H, kname, mk)
        except Exception as e:
            import traceback; traceback.print_exc()
            H.engine_error('kernel/' + kname, e)
    for d in ([1.0, 0.5] if H.quick else [1.0, 0.5, 2.0]):
        try:
            case_huber_continuity(H, d)
        except Exception as e:
            import traceback; traceback.print_exc()
            H.engine_error('huber-continuity', e)
    for cname in ('FastTriggs', 'Triggs'):
        for kname, mk, doc, extra in corrector_kernels(H.quick):
            if getattr(H, 'only', None) and H.only not in kname and H.only not in cname:
                continue
            shapes = [(2, 2, 1)] if H.quick else [(2, 2, 2), (1, 3, 1), (2, 1, 2)]
            for (N, d, k) in shapes:
                try:
                    case_corrector(H, cname, kname, mk, doc, extra, N, d, k)
                except Exception as e:
                    import traceback; traceback.print_exc()
                    H.engine_error('corrector/%s/%s' % (cname, kname), e)
    # configurations: residuals with two batch dims (as a batched model produces), and the call made under no_grad (as the optimizers make it)
    done = set()
    for cname in ('FastTriggs', 'Triggs'):
        for kname, mk, doc, extra in corrector_kernels(H.quick):
            fam = kname.split('(')[0]
            if (cname, fam) in done and H.quick:
                continue
            done.add((cname, fam))
            for (N, d, k, rshape, ng) in ([(4, 2, 1, (2, 2, 2), True) if cname == 'FastTriggs' else (2, 2, 1, (1, 2, 2), True)] if H.quick else [(4, 2, 1, (2, 2, 2), True), (4, 2, 2, (2, 2, 2), False), (2, 2, 1, None, True)]):
                try:
                    case_corrector(H, cname, kname, mk, doc, extra, N, d, k, rshape=rshape, nograd=ng)
                except Exception as e:
                    import traceback; traceback.print_exc()
                    H.engine_error('corrector-config/%s/%s' % (cname, kname), e)
    return H.finish(explanation=EXPLAIN)
