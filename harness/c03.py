"""C03 - group laws: associativity, inverse, identity, matrix homomorphism, Act, closure."""
import torch
import z3

import pypose as pp
from symx import terms as T
from .common import *

EXPLAIN = ("Real pypose Mul/Inv/Act/matrix/identity code is executed under the symx engine with fully symbolic group "
           "elements (unit quaternion, positive scale assumed); each component of each law is a solver obligation "
           "(z3, or sympy-proposed cofactors modulo the unit-norm relations whose polynomial identity z3 checks). "
           "Oracles: textbook quaternion->rotation matrix and 4x4 block matrices, not pypose's formulas.")


def case_laws(H, g):
    def prog(m):
        X, xs = sym_group(m, g, 'x', 11)
        Y, ys = sym_group(m, g, 'y', 12)
        Z, zs = sym_group(m, g, 'z', 13)
        p3, ps = sym_vec(m, 3, 'p', 14)
        p4, hs = sym_vec(m, 4, 'h', 15)
        out = {}
        out['assocL'] = ((X @ Y) @ Z)
        out['assocR'] = (X @ (Y @ Z))
        out['xinv'] = X @ X.Inv()
        out['invx'] = X.Inv() @ X
        I = pp.identity_like(X, dtype=DT)
        out['ix'] = I @ X
        out['xi'] = X @ I
        out['I'] = I
        I2 = {'SO3': pp.identity_SO3, 'SE3': pp.identity_SE3, 'RxSO3': pp.identity_RxSO3, 'Sim3': pp.identity_Sim3}[g](dtype=DT)
        out['I2'] = I2
        out['mxy'] = (X @ Y).matrix()
        out['mx'] = X.matrix()
        out['rot'] = X.rotation().matrix()
        out['rotq'] = X.rotation()
        if g in ('SE3', 'Sim3'):
            out['trans'] = X.translation()
        if g in ('RxSO3', 'Sim3'):
            out['scale'] = X.scale()
        out['act3'] = X.Act(p3)
        out['act4'] = X.Act(p4)
        out['actxy'] = (X @ Y).Act(p3)
        out['actx_y'] = X.Act(Y.Act(p3))
        out['act4xy'] = (X @ Y).Act(p4)
        out['act4x_y'] = X.Act(Y.Act(p4))
        out['xy'] = X @ Y
        out['inv'] = X.Inv()
        out['mul'] = X * Y      # __mul__ with a LieTensor is the group product as well
        res = {k: m.full_terms(v.tensor() if isinstance(v, pp.LieTensor) else v) for k, v in out.items()}
        st = [(res[k], (out[k].tensor() if isinstance(out[k], pp.LieTensor) else out[k])) for k in out]
        return res, st, (xs, ys, zs, ps, hs), m

    for ctx, (r, st, (xs, ys, zs, ps, hs), m) in run_paths(H, 'laws/' + g, prog):
        selftest(H, ctx, m, st, 'laws/' + g)
        hyp = H.hyps_of(ctx)
        rels = [unit_rel(g, xs), unit_rel(g, ys), unit_rel(g, zs)]
        allv = names_of(xs + ys + zs + ps + hs)
        n = GDIM[g]

        def mk_replay(fn, oracle, tol=1e-6, relative=False):
            def run_concrete(env):
                X = pp.LieTensor(normalize_group(g, tensor_from_env(names_of(xs), env)), ltype=GTYPE[g])
                Y = pp.LieTensor(normalize_group(g, tensor_from_env(names_of(ys), env)), ltype=GTYPE[g])
                Z = pp.LieTensor(normalize_group(g, tensor_from_env(names_of(zs), env)), ltype=GTYPE[g])
                p3 = tensor_from_env(names_of(ps), env)
                p4 = tensor_from_env(names_of(hs), env)
                env2 = dict(env)
                for vs, ten in ((xs, X), (ys, Y), (zs, Z)):
                    for v, val in zip(vs, ten.tensor().tolist()):
                        env2[str(v)] = val
                o = fn(X, Y, Z, p3, p4)
                o = o.tensor() if isinstance(o, pp.LieTensor) else o
                return o.reshape(-1).tolist(), env2
            return generic_replay(run_concrete, oracle, ctx.tfvar, allv, tol, relative=relative)

        def eqs(name, lhs, rhs, fn, needs_rel=True, tol=1e-6, relative=False):
            rp = mk_replay(fn, rhs, tol, relative)
            for i, (l, rr) in enumerate(zip(lhs, rhs)):
                nm = 'C03/%s/%s[%d]' % (g, name, i)
                H.certify(nm, l, rr, rels, key='C03/%s/%s' % (g, name), replay=rp, hyps=hyp)

        MX, MY = mat4(g, xs), mat4(g, ys)
        MXY = T.mm(MX, MY)
        # oracle product / inverse expressed at matrix level (independent of the tensor formulas):
        ident = [z3.RealVal(v) for v in {'SO3': [0, 0, 0, 1], 'SE3': [0, 0, 0, 0, 0, 0, 1], 'RxSO3': [0, 0, 0, 1, 1],
                                          'Sim3': [0, 0, 0, 0, 0, 0, 1, 1]}[g]]
        eqs('assoc', r['assocL'], r['assocR'], lambda X, Y, Z, p3, p4: (X @ Y) @ Z)
        eqs('x@inv', r['xinv'], ident, lambda X, Y, Z, p3, p4: X @ X.Inv())
        eqs('inv@x', r['invx'], ident, lambda X, Y, Z, p3, p4: X.Inv() @ X)
        eqs('identity_like', r['I'], ident, lambda X, Y, Z, p3, p4: pp.identity_like(X, dtype=DT))
        eqs('identity_ctor', r['I2'], ident, lambda X, Y, Z, p3, p4: pp.identity_like(X, dtype=DT))
        eqs('I@x', r['ix'], xs, lambda X, Y, Z, p3, p4: pp.identity_like(X, dtype=DT) @ X)
        eqs('x@I', r['xi'], xs, lambda X, Y, Z, p3, p4: X @ pp.identity_like(X, dtype=DT))
        eqs('mul==matmul', r['mul'], r['xy'], lambda X, Y, Z, p3, p4: X * Y)
        # matrix(): documented representation and homomorphism
        eqs('matrix', r['mx'], T.flat(mat_native(g, xs)), lambda X, Y, Z, p3, p4: X.matrix())
        nat = (lambda M: [row[:3] for row in M[:3]]) if g == 'SO3' else (lambda M: M)
        eqs('matrix_homomorphism', r['mxy'], T.flat(nat(MXY)), lambda X, Y, Z, p3, p4: (X @ Y).matrix())
        # accessors are the blocks
        t, q, s = parts(g, xs)
        eqs('rotation()', r['rot'], T.flat(T.quat_rot(q)), lambda X, Y, Z, p3, p4: X.rotation().matrix())
        eqs('rotation()q', r['rotq'], q, lambda X, Y, Z, p3, p4: X.rotation())
        if t is not None:
            eqs('translation()', r['trans'], t, lambda X, Y, Z, p3, p4: X.translation())
        if s is not None:
            eqs('scale()', r['scale'], [s], lambda X, Y, Z, p3, p4: X.scale())
            # scales multiply / invert - for EVERY positive scale, however small (a replayed candidate is judged by relative error)
            sy_ = parts(g, ys)[2]
            eqs('scale(X@Y)==scale(X)*scale(Y)', [parts(g, r['xy'])[2]], [s * sy_], lambda X, Y, Z, p3, p4: (X @ Y).scale(), relative=True)
            eqs('scale(Inv X)==1/scale(X)', [parts(g, r['inv'])[2]], [1 / s], lambda X, Y, Z, p3, p4: X.Inv().scale(), relative=True)
        # Act = matrix multiplication (3-vectors are points: homogeneous coordinate 1)
        a3 = T.mv(MX, ps + [z3.RealVal(1)])[:3]
        eqs('Act3', r['act3'], a3, lambda X, Y, Z, p3, p4: X.Act(p3))
        a4 = T.mv(MX, hs)
        eqs('Act4', r['act4'], a4, lambda X, Y, Z, p3, p4: X.Act(p4))
        eqs('Act3_homomorphism', r['actxy'], r['actx_y'], lambda X, Y, Z, p3, p4: (X @ Y).Act(p3))
        eqs('Act4_homomorphism', r['act4xy'], r['act4x_y'], lambda X, Y, Z, p3, p4: (X @ Y).Act(p4))
        eqs('Act3_of_product', r['actxy'], T.mv(MXY, ps + [z3.RealVal(1)])[:3], lambda X, Y, Z, p3, p4: (X @ Y).Act(p3))
        # closure (inductive step from arbitrary valid elements): unit quaternion, positive scale
        for nm, key, fn in (('product', 'xy', lambda X, Y, Z, p3, p4: X @ Y), ('inverse', 'inv', lambda X, Y, Z, p3, p4: X.Inv())):
            tt, qq, ss = parts(g, r[key])
            nq = T.dot(qq, qq)
            rp = mk_replay(lambda X, Y, Z, p3, p4, fn=fn: (lambda o: (parts(g, o.tensor())[1] ** 2).sum().reshape(1))(fn(X, Y, Z, p3, p4)), [z3.RealVal(1)])
            H.certify('C03/%s/closure_%s_unit' % (g, nm), nq, z3.RealVal(1), rels, key='C03/%s/closure_%s' % (g, nm), replay=rp, hyps=hyp)
            if ss is not None:
                H.prove('C03/%s/closure_%s_scale' % (g, nm), hyp, ss > 0, key='C03/%s/closure_%s' % (g, nm))
        # |q(X@Y)|^2 = |q(X)|^2 |q(Y)|^2 for arbitrary (not only unit) quaternions: drift is multiplicative only
        tq, qq, sq = parts(g, r['xy'])
        H.certify('C03/%s/norm_multiplicative' % g, T.dot(qq, qq), T.dot(parts(g, xs)[1], parts(g, xs)[1]) * T.dot(parts(g, ys)[1], parts(g, ys)[1]), [],
                  key='C03/%s/closure_product' % g)
        # vacuity guards
        H.reach('C03/%s/reach' % g, hyp)
        H.twin('C03/%s/twin' % g, hyp, r['act3'][0] == a3[0] + 1)


def case_retr_closure(H, g):
    """X.Retr(a) / X.add_(a) stay valid group elements.  Staged: (i) both are the product Exp(a)@X (same terms),
    (ii) the quaternion norm is multiplicative for *arbitrary* quaternions (free polynomial identity, proved in
    case_laws as norm_multiplicative) and scales multiply, (iii) |q(Exp(a))|^2 is 1 exactly in the closed-form
    regime and within 1e-60 in the small-angle Taylor regime (proved here on the small Exp query)."""
    def prog(m):
        X, xs = sym_group(m, g, 'x', 21)
        a, as_ = sym_alg(m, g, 'a', 22)
        E = a.Exp()
        EX = E @ X
        Y = X.Retr(a)
        X2 = X.clone()
        X2.add_(a.tensor())
        return (m.full_terms(Y.tensor()), m.full_terms(X2.tensor()), m.full_terms(E.tensor()), m.full_terms(EX.tensor()),
                xs, as_, m, Y, X2)

    for ctx, (y, y2, e, ex, xs, as_, m, Y, X2) in run_paths(H, 'retr/' + g, prog):
        selftest(H, ctx, m, [(y, Y.tensor()), (y2, X2.tensor())], 'retr/' + g)
        hyp = H.hyps_of(ctx)
        pn = H.paths
        for nm, yy in (('Retr', y), ('add_', y2)):
            for i, (l, r) in enumerate(zip(yy, ex)):
                H.prove('C03/%s/%s==Exp(a)@X/path%d[%d]' % (g, nm, pn, i), hyp, l == r, key='C03/%s/closure_%s' % (g, nm))
        t, q, s = parts(g, e)
        nq = T.dot(q, q)
        tol = z3.RealVal(10) ** -60 if False else z3.RealVal('1/' + '1' + '0' * 60)
        th = [v for (f, _), (v, a_) in ctx.tf.items() if f == 'sqrt']
        rels = [v * v - a_ for (f, _), (v, a_) in ctx.tf.items() if f == 'sqrt']
        ta, ph, sg = aparts(g, as_)
        H.certify_bound('C03/%s/Exp(a)_unit/path%d' % (g, pn), nq - 1, rels, hyp, -tol, tol, elim=ph[:1], key='C03/%s/closure_Retr' % g)
        if s is not None:
            H.prove('C03/%s/Exp(a)_scale_positive/path%d' % (g, pn), hyp, s > 0, key='C03/%s/closure_Retr' % g)
        H.reach('C03/%s/retr_reach/path%d' % (g, pn), hyp)


def case_identity_history(H, g):
    """history: an identity element that was updated in place (what every optimizer does to an identity-initialised
    pose) must not change what the identity constructors return afterwards"""
    ctor = {'SO3': pp.identity_SO3, 'SE3': pp.identity_SE3, 'RxSO3': pp.identity_RxSO3, 'Sim3': pp.identity_Sim3}[g]
    ident = [z3.RealVal(v) for v in {'SO3': [0, 0, 0, 1], 'SE3': [0, 0, 0, 0, 0, 0, 1], 'RxSO3': [0, 0, 0, 1, 1],
                                      'Sim3': [0, 0, 0, 0, 0, 0, 1, 1]}[g]]

    def prog(m):
        outs = []
        for args in ((), (2,)):
            E = ctor(*args, dtype=DT)
            a, as_ = sym_alg(m, g, 'a', 31)
            E.add_(a.tensor())                       # in-place retraction of the first identity
            E2 = ctor(*args, dtype=DT)               # same constructor arguments again
            X, xs = sym_group(m, g, 'x', 32)
            E3 = pp.identity_like(E, dtype=DT)
            outs.append((m.full_terms(E2.tensor()), m.full_terms(E3.tensor()), m.full_terms((E2 @ X).tensor()), xs, args))
        return outs

    def replay(model):
        E = ctor(dtype=DT)
        E.add_(torch.tensor([0.3, -0.2, 0.1, 0.2, 0.4, -0.5, 0.3][:ADIM[g]], dtype=DT))
        E2 = ctor(dtype=DT)
        bad = (E2.tensor() - torch.tensor([float(str(v)) for v in ident], dtype=DT)).abs().max().item()
        return bad > 1e-9, 'identity constructor returned a non-identity element after an in-place update of an earlier identity (max dev %.3g)' % bad

    for ctx, outs in run_paths(H, 'identity_history/' + g, prog):
        hyp = H.hyps_of(ctx)
        for e2, e3, e2x, xs, args in outs:
            k = len(ident)
            for b in range(len(e2) // k):
                for i in range(k):
                    H.prove('C03/%s/identity_after_inplace_update%s[%d]' % (g, args, b * k + i), hyp, e2[b * k + i] == ident[i],
                            replay=replay, key='C03/%s/identity_history' % g)
                    H.prove('C03/%s/identity_like_after_inplace_update%s[%d]' % (g, args, b * k + i), hyp, e3[b * k + i] == ident[i],
                            replay=replay, key='C03/%s/identity_history' % g)


def case_act_cloud_size(H, g, N=4100):
    """size configuration: ONE symbolic transform acting on a cloud of N concrete points (N beyond any plausible fast-path
    threshold) must give, point by point, what it gives on the first few points alone (which case_laws ties to matrix())."""
    name = 'C03/%s/Act/one-transform-on-%d-points' % (g, N)
    K = 3

    def prog(m):
        X, xs = sym_group(m, g, 'x', 77)
        gen = torch.Generator().manual_seed(12)
        P = torch.randn(N, 3, dtype=DT, generator=gen)
        big = X.Act(P)
        idx = [0, 1, N // 2, N - 1]
        small = X.Act(P[idx].contiguous())
        bt = m.full_terms(big)
        return [bt[3 * i:3 * i + 3] for i in idx], [m.full_terms(small)[3 * k:3 * k + 3] for k in range(len(idx))], tuple(big.shape), idx

    def replay(model):
        X = rand_group(g, 77)
        vals = tensor_from_env(['x%d' % i for i in range(GDIM[g])], model)
        if float(vals.abs().sum()) != 0:
            X = pp.LieTensor(vals.to(DT), ltype=X.ltype)
        gen = torch.Generator().manual_seed(12)
        P = torch.randn(N, 3, dtype=DT, generator=gen)
        big = X.Act(P)
        ref = torch.cat([X.Act(P[i:i + 64]) for i in range(0, N, 64)])
        e = ((big - ref).abs().amax(-1) / (1e-300 + ref.abs().amax(-1))).max().item()
        return e > 1e-9, 'Act of one %s element on %d points differs from the same Act on chunks of 64 points by %.3g (relative)' % (g, N, e)

    for ctx, (big, small, shape, idx) in run_paths(H, name, prog, max_paths=4):
        hyp = H.hyps_of(ctx)
        H.prove(name + '/shape', [], z3.BoolVal(shape == (N, 3)), replay=replay, key='C03/%s/Act' % g)
        for k, i in enumerate(idx):
            for c in range(3):
                H.same('%s/point%d[%d]' % (name, i, c), hyp, big[k][c], small[k][c], ctx, replay=replay, key='C03/%s/Act' % g, timeout=20)


def run(H):
    H.assumptions += ['exact real arithmetic (round-off outside the claim)', 'group inputs are valid: |q|=1, s>0',
                      'float constants read as their intended rationals']
    H.bounds += ['single items (batching is C06); one transform on a cloud of 4100 concrete points against the same on 4 of them', 'float64 thresholds', 'closure is an inductive step from an '
                 'arbitrary valid element: covers histories of any length in exact arithmetic; float drift over '
                 '1e4 steps is outside']
    for g in GROUPS:
        if getattr(H, 'only', None) and H.only not in g:
            continue
        try:
            case_laws(H, g)
            case_retr_closure(H, g)
            case_identity_history(H, g)
            case_act_cloud_size(H, g)
        except Exception as e:
            import traceback
            traceback.print_exc()
            H.engine_error('C03/' + g, e)
    return H.finish(explanation=EXPLAIN)
