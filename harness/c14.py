"""C14 - LQR returns the feasible global minimiser of the LQ problem; repeated solves; MPC agrees."""
import torch
import z3

import pypose as pp
from symx import terms as T
from symx.terms import diff, subst
from .common import *

EXPLAIN = ("LQR.forward runs under symx on symbolic LTI / time-indexed LTV systems (symbolic A_t,B_t,c1,x_init, nominal inputs, "
           "Cholesky-parametrised positive-definite Q_t, symbolic p_t); torch.linalg.cholesky is its contract stub, cholesky_solve its "
           "definition. Oracle: the LQ problem itself - the harness rolls the dynamics out with FREE inputs u_t over z3 terms, forms the "
           "cost, and differentiates it symbolically; obligations: x_0 = x_init, x_{t+1} = A_t x_t + B_t u_t + c1, reported cost = sum "
           "formula, d cost/d u_t = 0 at the returned inputs (with Q_t positive definite: the global minimum), independence from the nominal "
           "trajectory, and a SECOND solve on the same system object returning the same terms (history). MPC on a linear system: same "
           "stationarity obligations on its result.")


def pd_sym(m, n, name, seed):
    from .c13 import spd_sym
    return spd_sym(m, n, name, seed)


def lq_oracle(A, B, c1, Q, p, x0, us, n, mdim, Tn):
    """roll out with given input terms; returns states, cost"""
    xs = [x0]
    cost = z3.RealVal(0)
    for t in range(Tn):
        tau = xs[-1] + us[t]
        Qt = Q[t]
        quad = z3.Sum([tau[i] * Qt[i][j] * tau[j] for i in range(n + mdim) for j in range(n + mdim)])
        cost = cost + quad / 2 + z3.Sum([p[t][i] * tau[i] for i in range(n + mdim)])
        xn = [a + b + c for a, b, c in zip(T.mv(A[t], xs[-1]), T.mv(B[t], us[t]), c1)]
        xs.append(xn)
    return xs, cost


def case_lqr(H, n, mdim, Tn, ltv, with_c1, nominal, second_solve, mpc=False):
    name = 'C14/%s/%s/n=%d,m=%d,T=%d/c1=%s/nominal=%s/second=%s' % ('MPC' if mpc else 'LQR', 'LTV' if ltv else 'LTI', n, mdim, Tn, with_c1, nominal, second_solve)
    nsc = n + mdim

    class MyLTV(pp.module.LTV):
        @property
        def A(self):
            return self._A[..., self._t, :, :]

        @property
        def B(self):
            return self._B[..., self._t, :, :]

        @property
        def C(self):
            return self._C[..., self._t, :, :]

        @property
        def D(self):
            return self._D[..., self._t, :, :]

    def build(m, concrete=False, gen=None):
        r = (lambda *s: torch.randn(*s, dtype=DT, generator=gen) * 0.5)
        nT = Tn if ltv else 1
        A = r(1, nT, n, n) if ltv else r(1, n, n)
        B = r(1, nT, n, mdim) if ltv else r(1, n, mdim)
        C = torch.zeros(1, nT, n, n, dtype=DT) if ltv else torch.zeros(1, n, n, dtype=DT)
        D = torch.zeros(1, nT, n, mdim, dtype=DT) if ltv else torch.zeros(1, n, mdim, dtype=DT)
        c1 = r(1, n) if with_c1 else None
        x0 = r(1, n)
        p = r(1, Tn, nsc)
        un = r(1, Tn, mdim) if nominal else None
        return A, B, C, D, c1, x0, p, un

    def mk_sys(A, B, C, D, c1):
        if ltv:
            return MyLTV(A, B, C, D, c1, None)
        return pp.module.LTI(A, B, C, D, c1, None)

    def prog(m):
        gen = torch.Generator().manual_seed(31)
        A, B, C, D, c1, x0, p, un = build(m, gen=gen)
        As, Bs = m.symbolic(A, 'A'), m.symbolic(B, 'B')
        c1s = m.symbolic(c1, 'c') if with_c1 else [z3.RealVal(0)] * n
        x0s, ps = m.symbolic(x0, 'x'), m.symbolic(p, 'p')
        uns = m.symbolic(un, 'w') if nominal else None
        Qs, Qts = [], []
        for t in range(Tn):
            Qt_, Qterm, _ = pd_sym(m, nsc, 'Q%d' % t, 50 + t)
            Qs.append(Qt_)
            Qts.append(Qterm)
        Q = torch.stack(Qs, 0).unsqueeze(0).contiguous()
        m.set_terms(Q, [e for Qt_ in Qts for e in T.flat(Qt_)])
        sys_ = mk_sys(A, B, C, D, c1)
        if mpc:
            from pypose.utils.stepper import ReduceToBason
            solver = pp.module.MPC(sys_, Q, p, Tn, stepper=ReduceToBason(steps=2))
            x, u, cost = solver(1, x0, un)
        else:
            solver = pp.module.LQR(sys_, Q, p, Tn)
            x, u, cost = solver(x0, 1, un)
            if second_solve:
                x, u, cost = solver(x0, 1, un)          # history: same system object, clock advanced by the first solve
        return (m.full_terms(x), m.full_terms(u), m.full_terms(cost), As, Bs, c1s, x0s, ps, Qts, m, (x, u, cost))

    def replay(model_):
        gen = torch.Generator().manual_seed(77)
        A, B, C, D, c1, x0, p, un = build(None, gen=gen)
        Ls = [torch.tril(torch.randn(nsc, nsc, dtype=DT, generator=gen)) * 0.3 + torch.eye(nsc, dtype=DT) for _ in range(Tn)]
        Q = torch.stack([L @ L.T for L in Ls], 0).unsqueeze(0)
        sys_ = mk_sys(A, B, C, D, c1)
        try:
            if mpc:
                from pypose.utils.stepper import ReduceToBason
                x, u, cost = pp.module.MPC(sys_, Q, p, Tn, stepper=ReduceToBason(steps=2))(1, x0, un)
            else:
                solver = pp.module.LQR(sys_, Q, p, Tn)
                x, u, cost = solver(x0, 1, un)
                if second_solve:
                    x, u, cost = solver(x0, 1, un)
        except Exception as e:
            return True, 'solve raised %s: %s' % (type(e).__name__, str(e)[:100])
        # independent oracle: solve the LQ problem as one linear system in the stacked inputs (dense KKT by autograd of the roll-out)
        def rollout(uf):
            xs = [x0[0]]
            c = 0
            for t in range(Tn):
                At = A[0, t] if ltv else A[0]
                Bt = B[0, t] if ltv else B[0]
                tau = torch.cat([xs[-1], uf[t]])
                c = c + 0.5 * tau @ Q[0, t] @ tau + p[0, t] @ tau
                xs.append(At @ xs[-1] + Bt @ uf[t] + (c1[0] if with_c1 else 0))
            return c, xs
        uf = u[0].detach().clone().requires_grad_(True)
        c, xs = rollout(uf)
        g = torch.autograd.grad(c, uf)[0]
        feas = max((x[0, t] - xs[t]).abs().max().item() for t in range(Tn + 1))
        bad = g.abs().max().item() > 1e-6 * (1 + c.abs().item()) or feas > 1e-8 or abs(cost.item() - c.item()) > 1e-8 * (1 + abs(c.item()))
        return bad, 'gradient of the true LQ cost at the returned inputs: %.3g, dynamics residual %.3g, reported cost %.6g vs %.6g' % (
            g.abs().max().item(), feas, cost.item(), c.item())

    def on_raise(ctx, e):
        H.absorb(ctx)
        ok, det = replay({})
        if ok:
            H.violation('C14/%s/raises' % ('second-solve' if second_solve else 'solve'), '%s: %s' % (name, det), {'case': name})
        else:
            H.engine_error(name, e)

    def replay_illcond(model_):
        # positive-definite but ill-conditioned input cost (cond(Quu) ~ 1e6, inside the documented range): a truncating
        # pseudo-inverse in the backward pass silently returns a non-minimiser
        nn_, mm_, TT = 2, 2, 2
        torch.manual_seed(8)
        A, B = 0.5 * torch.randn(1, nn_, nn_, dtype=DT), 0.5 * torch.randn(1, nn_, mm_, dtype=DT)
        Q = torch.block_diag(torch.eye(nn_, dtype=DT), torch.diag(torch.tensor([1.0, 1e-6], dtype=DT))).view(1, 1, 4, 4).repeat(1, TT, 1, 1)
        p = torch.randn(1, TT, nn_ + mm_, dtype=DT)
        x0 = torch.randn(1, nn_, dtype=DT)
        sys_ = pp.module.LTI(A, B, torch.zeros(1, nn_, nn_, dtype=DT), torch.zeros(1, nn_, mm_, dtype=DT))
        x, u, cost = pp.module.LQR(sys_, Q, p, TT)(x0, 1)
        uf = u[0].detach().clone().requires_grad_(True)
        xs, c = [x0[0]], 0
        for t in range(TT):
            tau = torch.cat([xs[-1], uf[t]])
            c = c + 0.5 * tau @ Q[0, t] @ tau + p[0, t] @ tau
            xs.append(A[0] @ xs[-1] + B[0] @ uf[t])
        g = torch.autograd.grad(c, uf)[0]
        return g.abs().max().item() > 1e-6 * (1 + abs(c.item())), 'gradient of the true LQ cost at the returned inputs is %.3g for a positive-definite Q with cond(Quu) = 1e6' % g.abs().max().item()

    for ctx, (xt, ut, ct, As, Bs, c1s, x0s, ps, Qts, m, tens) in run_paths(H, name, prog, max_paths=8, raised=on_raise):
        selftest(H, ctx, m, [(xt, tens[0]), (ut, tens[1]), (ct, tens[2])], name)
        from symx.engine import _nonzero_tol
        for call in getattr(ctx, 'pinv_calls', []):
            if any(_nonzero_tol(call.get(kk)) for kk in ('atol', 'rtol')) or any(_nonzero_tol(a_) for a_ in (call.get('extra') or [])[:2]):
                H.prove(name + '/linear-solves-without-truncation', [], z3.BoolVal(False), replay=replay_illcond, key='C14/LQR/conditioning')
        no_downcast_ob(H, ctx, name, 'C14/LQR/precision', replay_precision)
        hyp = H.hyps_of(ctx)
        A = [T.mat(As[(t if ltv else 0) * n * n:((t if ltv else 0) + 1) * n * n], n, n) for t in range(Tn)]
        B = [T.mat(Bs[(t if ltv else 0) * n * mdim:((t if ltv else 0) + 1) * n * mdim], n, mdim) for t in range(Tn)]
        pv = [ps[t * nsc:(t + 1) * nsc] for t in range(Tn)]
        # code's trajectory
        X = [xt[t * n:(t + 1) * n] for t in range(Tn + 1)]
        U = [ut[t * mdim:(t + 1) * mdim] for t in range(Tn)]
        to = 30 if H.quick else 150
        key = 'C14/%s' % ('second-solve' if second_solve else ('MPC' if mpc else 'LQR'))
        H.prove(name + '/x0==x_init', hyp, z3.And([a == b for a, b in zip(X[0], x0s)]), replay=replay, key=key, timeout=to)
        for t in range(Tn):
            xn = [a + b + c for a, b, c in zip(T.mv(A[t], X[t]), T.mv(B[t], U[t]), c1s)]
            H.prove('%s/dynamics[t=%d]' % (name, t), hyp, z3.And([a == b for a, b in zip(X[t + 1], xn)]), replay=replay, key=key, timeout=to)
        # cost formula on the code's own trajectory
        cst = z3.RealVal(0)
        for t in range(Tn):
            tau = X[t] + U[t]
            cst = cst + z3.Sum([tau[i] * Qts[t][i][j] * tau[j] for i in range(nsc) for j in range(nsc)]) / 2 + z3.Sum([pv[t][i] * tau[i] for i in range(nsc)])
        H.prove(name + '/cost-formula', hyp, ct[0] == cst, replay=replay, key=key, timeout=to)
        # stationarity of the TRUE problem at the returned inputs
        uf = [[z3.Real('uf_%d_%d' % (t, i)) for i in range(mdim)] for t in range(Tn)]
        xs_or, cost_or = lq_oracle(A, B, c1s, Qts, pv, x0s, uf, n, mdim, Tn)
        sub = [(uf[t][i], U[t][i]) for t in range(Tn) for i in range(mdim)]
        for t in range(Tn):
            for i in range(mdim):
                g = subst(diff(cost_or, uf[t][i]), sub)
                H.prove('%s/stationary[t=%d,%d]' % (name, t, i), hyp, g == 0, replay=replay, key=key, timeout=to,
                        neg_margin=z3.Or(g > z3.RealVal('1/1000'), g < -z3.RealVal('1/1000')))
        H.reach(name + '/reach', hyp)


def replay_precision(model):
    """float64 problem, nominal inputs far from the optimum: the returned inputs must be stationary for an independently rolled-out cost
    to float64 accuracy (a single-precision detour of the control update leaves a gradient of ~1e-3)"""
    gen = torch.Generator().manual_seed(5)
    n, mdim, Tn = 2, 1, 3
    r = lambda *s: torch.randn(*s, dtype=DT, generator=gen) * 0.5
    A, Bm, x0, p = r(1, n, n), r(1, n, mdim), r(1, n), r(1, Tn, n + mdim)
    L = r(1, Tn, n + mdim, n + mdim)
    Q = L @ L.mT + torch.eye(n + mdim, dtype=DT)
    z = lambda *s: torch.zeros(*s, dtype=DT)
    worst = 0.0
    for scale in (0.0, 1e3):
        un = r(1, Tn, mdim) * scale
        lqr = pp.module.LQR(pp.module.LTI(A, Bm, z(1, n, n), z(1, n, mdim)), Q, p, Tn)
        x, u, c = lqr(x0, 1, u_traj=(un if scale else None))
        uu = u.detach().clone().requires_grad_(True)
        xt, cost = x0, 0
        for t in range(Tn):
            tau = torch.cat([xt, uu[:, t]], -1)
            cost = cost + 0.5 * (tau.unsqueeze(-2) @ Q[:, t] @ tau.unsqueeze(-1)).sum() + (p[:, t] * tau).sum()
            xt = (A @ xt.unsqueeze(-1)).squeeze(-1) + (Bm @ uu[:, t].unsqueeze(-1)).squeeze(-1)
        gmax = torch.autograd.grad(cost, uu)[0].abs().max().item()
        worst = max(worst, gmax)
    return worst > 1e-7, 'float64 LQR: |dJ/du| = %.3g at the returned inputs (nominal inputs of magnitude 0 and 1e3)' % worst


def case_lqr_config(H, n, mdim, Tn, B):
    """configurations of one LQR problem, differential against the single-item solve that the other cases verify:
    (a) a batch of B independent problems: item k of the batched result == the solve of problem k alone;
    (b) a second solve on the same LQR object after the caller updated its nominal-input buffer IN PLACE == a solve on a fresh object
        with a fresh tensor holding the same values (no state may be carried between calls by tensor identity)."""
    name = 'C14/LQR/config/n=%d,m=%d,T=%d,batch=%d' % (n, mdim, Tn, B)
    nsc = n + mdim

    def tensors(gen):
        r = (lambda *s: torch.randn(*s, dtype=DT, generator=gen) * 0.5)
        A, Bm, x0, p, un, un2 = r(B, n, n), r(B, n, mdim), r(B, n), r(B, Tn, nsc), r(B, Tn, mdim), r(B, Tn, mdim)
        Qd = torch.eye(nsc, dtype=DT).repeat(B, Tn, 1, 1) * torch.linspace(1.0, 2.0, nsc, dtype=DT).view(1, 1, nsc, 1)
        return A, Bm, x0, p, un, un2, (Qd + Qd.mT) / 2

    def solve(A, Bm, x0, p, Q, un, lqr=None):
        z = lambda *s: torch.zeros(*s, dtype=DT)
        b = A.shape[0]
        if lqr is None:
            lqr = pp.module.LQR(pp.module.LTI(A, Bm, z(b, n, n), z(b, n, mdim)), Q, p, Tn)
        x, u, c = lqr(x0, 1, u_traj=un)
        return lqr, x, u, c

    def scenario(A, Bm, x0, p, Q, un, un2):
        pairs = []
        _, x, u, c = solve(A, Bm, x0, p, Q, None)
        for k in range(B):
            _, xk, uk, ck = solve(A[k:k + 1], Bm[k:k + 1], x0[k:k + 1], p[k:k + 1], Q[k:k + 1], None)
            pairs += [('batch item %d: states' % k, x[k], xk[0]), ('batch item %d: inputs' % k, u[k], uk[0]), ('batch item %d: cost' % k, c[k].reshape(1), ck.reshape(-1)[:1])]
        # compact (time-invariant) weights Q:[B,n,n], p:[B,n], different for every batch item == the same weights spelled out per step
        fac = torch.arange(1, B + 1, dtype=DT).view(B, 1, 1)
        Qc, pc = Q[:, 0] * fac, p[:, 0]
        _, xa, ua, ca = solve(A, Bm, x0, pc, Qc, None)
        _, xb, ub, cb = solve(A, Bm, x0, pc.unsqueeze(1).repeat(1, Tn, 1), Qc.unsqueeze(1).repeat(1, Tn, 1, 1), None)
        pairs += [('compact weights: states', xa, xb), ('compact weights: inputs', ua, ub), ('compact weights: cost', ca.reshape(-1), cb.reshape(-1))]
        buf = un.clone()
        lqr, _, _, _ = solve(A, Bm, x0, p, Q, buf)
        with torch.no_grad():
            buf.copy_(un2)                        # the caller re-uses its buffer (receding-horizon pattern)
        _, x2, u2, c2 = solve(A, Bm, x0, p, Q, buf, lqr=lqr)
        _, x3, u3, c3 = solve(A, Bm, x0, p, Q, un2.clone())
        pairs += [('second solve, nominal buffer updated in place: states', x2, x3), ('second solve, nominal buffer updated in place: inputs', u2, u3),
                  ('second solve, nominal buffer updated in place: cost', c2.reshape(-1), c3.reshape(-1))]
        return pairs

    def prog(m):
        gen = torch.Generator().manual_seed(31)
        A, Bm, x0, p, un, un2, Q = tensors(gen)
        for nm, t in (('A', A), ('B', Bm), ('x', x0), ('p', p), ('u', un), ('v', un2)):
            m.symbolic(t, nm)
        return [(lab, m.full_terms(a_), m.full_terms(b_)) for lab, a_, b_ in scenario(A, Bm, x0, p, Q, un, un2)]

    def replay(model):
        gen = torch.Generator().manual_seed(31)
        A, Bm, x0, p, un, un2, Q = tensors(gen)
        for nm, t in (('A', A), ('B', Bm), ('x', x0), ('p', p), ('u', un), ('v', un2)):
            flat = t.reshape(-1)
            for i in range(flat.numel()):
                if (nm + str(i)) in model:
                    flat[i] = float(model[nm + str(i)])
        try:
            pairs = scenario(A, Bm, x0, p, Q, un, un2)
        except Exception as e:
            return True, 'LQR raised %s: %s (n=%d, m=%d, T=%d, batch=%d)' % (type(e).__name__, str(e)[:120], n, mdim, Tn, B)
        worst, wl = 0.0, ''
        for lab, a_, b_ in pairs:
            if a_.shape != b_.shape:
                return True, '%s: shapes %s vs %s' % (lab, tuple(a_.shape), tuple(b_.shape))
            e = (a_ - b_).abs().max().item()
            if e > worst:
                worst, wl = e, lab
        return worst > 1e-8, '%s differs by %.3g' % (wl, worst)

    def on_raise(ctx, e):
        H.absorb(ctx)
        ok, det = replay({k: v for k, v in ctx.env.items() if isinstance(v, float)})
        if ok:
            H.violation('C14/LQR/config', '%s: %s' % (name, det), {'case': name})
        else:
            H.engine_error(name, e)

    for ctx, res in run_paths(H, name, prog, max_paths=8, raised=on_raise):
        hyp = H.hyps_of(ctx)
        no_downcast_ob(H, ctx, '%s/path%d' % (name, H.paths), 'C14/LQR/config', replay_precision)
        for lab, a_, b_ in res:
            H.prove('%s/path%d/%s/same-length' % (name, H.paths, lab), [], z3.BoolVal(len(a_) == len(b_)), replay=replay, key='C14/LQR/config')
            for i, (l, r) in enumerate(zip(a_, b_)):
                H.same('%s/path%d/%s[%d]' % (name, H.paths, lab, i), hyp, l, r, ctx, replay=replay, key='C14/LQR/config', timeout=15)


def run(H):
    H.assumptions += ['exact real arithmetic', 'Q_t symmetric positive definite (Cholesky-parametrised): stationarity is then global optimality',
                      'torch.linalg.cholesky by its contract (L L^T = Quu on the non-raising path)']
    H.bounds += ['batch 1 for the optimality clauses (batches of 2-3 problems, compact per-item weights and a re-used nominal buffer differentially against single / spelled-out solves; no precision-reducing cast of float64 data); (n,m,T) in {(1,1,1),(1,1,2),(2,1,2)} quick, +(1,1,3),(1,2,2),(2,2,2) thorough', 'LTV: matrices indexed by the system clock',
                 'second solve on the same system object (history of length 2)', 'MPC: linear system, 2 stepper iterations']
    cases = [(1, 1, 1, False, False, False, False), (1, 1, 2, False, True, True, False), (1, 1, 2, True, False, False, False),
             (1, 1, 2, True, False, False, True), (1, 1, 2, False, False, False, True), (2, 1, 2, False, True, False, False)]
    if not H.quick:
        cases += [(1, 1, 3, True, True, True, False), (1, 2, 2, False, False, True, False), (2, 2, 2, True, False, False, True), (1, 1, 3, True, False, False, True)]
    for (n, mdim, Tn, ltv, c1, nom, second) in cases:
        try:
            case_lqr(H, n, mdim, Tn, ltv, c1, nom, second)
        except Exception as e:
            import traceback; traceback.print_exc()
            H.engine_error('lqr', e)
    for (n, mdim, Tn, B) in ([(1, 1, 2, 2)] if H.quick else [(1, 1, 2, 2), (2, 1, 2, 2), (1, 2, 2, 3)]):
        try:
            case_lqr_config(H, n, mdim, Tn, B)
        except Exception as e:
            import traceback; traceback.print_exc()
            H.engine_error('lqr-config', e)
    try:
        case_lqr(H, 1, 1, 2, False, False, False, False, mpc=True)
    except Exception as e:
        import traceback; traceback.print_exc()
        H.engine_error('mpc', e)
    return H.finish(explanation=EXPLAIN)
