"""C07 - a GN/LM step is the documented damped, weighted linear solve on the manifold."""
import torch
import z3
from torch import nn

import pypose as pp
from symx import terms as T
from symx.engine import rat
from .common import *
from .jac import gmul
from .optcommon import RecSolver, make_model, oracle_residual_jacobian, concrete_instance, fd_residual_jacobian

EXPLAIN = ("GaussNewton.step and LevenbergMarquardt.step run under symx on bounded model programs (SO3 Act; SE3 + Euclidean + frozen "
           "parameter; so3 algebra parameter with two residual outputs) with symbolic parameters, inputs, targets and weights. The property's own "
           "observation point is used: a user-supplied recording solver returns an ARBITRARY (fresh symbolic) solution and records the terms "
           "of (A, b). Obligations: GN: A = W J, b = -W R; LM trial k: A_0 = J^T W J with its diagonal clamped to [min,max], "
           "A_k = A_{k-1} + lambda_k diag(A_{k-1}), b = -J^T W R, where J is the symbolic derivative of the engine's own residual terms in "
           "tangent coordinates (left perturbation for group parameters, zero padding column) after the configured corrector (C09 formulas "
           "as oracle); for arbitrary D the parameters become p + D_slice (Euclidean/algebra) resp. Exp(D_slice) @ X (group), frozen ones "
           "untouched. That the default solvers return the documented solution is C10.")


def corrected(ctx, R, J, kernel):
    """oracle FastTriggs: rows scaled by sqrt(rho'(|R_i|^2)) per residual item (last dim)"""
    if kernel is None:
        return R, J
    raise NotImplementedError


HUBER_DELTA = 0.5


def case_gn(H, kind, weighted, vectorize, kernels=None):
    """kernels: None, or a list aligned with the model's residual outputs of None / 'Huber' (auto-selected FastTriggs correctors)"""
    name = 'C07/GN/%s/weight=%s/vectorize=%s%s' % (kind, weighted, vectorize, '' if kernels is None else '/kernel=%s' % kernels)
    mk_kernels = (lambda: None) if kernels is None else (lambda: [None if k_ is None else pp.optim.kernel.Huber(delta=HUBER_DELTA) for k_ in kernels])

    def prog(m):
        mod, params, p, y, ps, ys, info = make_model(kind, m)
        if kernels is not None:
            # configuration case: one regime of the algebra parameter (value coverage of the small-angle branches is in the other cases)
            for (nm_, k_, g_, vs_, ten_) in params:
                if nm_ == 'a':
                    m.ctx.assume += [z3.Sum([v_ * v_ for v_ in vs_]) > z3.RealVal('1/100'), z3.Sum([v_ * v_ for v_ in vs_]) < 1]
        R, Rflat, J = oracle_residual_jacobian(m.ctx, m, mod, params, p, y)
        W = Wt = None
        if weighted:
            d = 3
            nw = 2 if kind == 'SO3-act-batched' else 1
            Lw = torch.tril(torch.randn(nw, d, d, dtype=DT)) * 0.3 + torch.eye(d, dtype=DT)
            W = (Lw @ Lw.mT).contiguous()
            if nw == 1:
                W = W[0].contiguous()
            Wt = m.symbolic(W, 'w')
        sol = RecSolver(m, rot_slices=info['rot_slices'])
        opt = pp.optim.GN(mod, solver=sol, vectorize=vectorize, kernel=mk_kernels())
        before = {nm: list(vs) for nm, kind_, g, vs, ten in params}
        loss = opt.step(p, y, weight=W) if weighted else opt.step(p, y)
        after = {nm: m.full_terms(ten.data) for nm, kind_, g, vs, ten in params}
        # oracle retraction of the group parameters with the engine's own Exp of the step slice
        D = sol.Ds[0]
        k = 0
        exp_after = {}
        for (nm, kind_, g, vs, ten) in params:
            if kind_ == 'frozen':
                exp_after[nm] = list(vs)
            elif kind_ == 'group':
                sl = D[k:k + GDIM[g]]
                k += GDIM[g]
                dten = torch.zeros(ADIM[g], dtype=DT)
                m.set_terms(dten, sl[:ADIM[g]])
                # concrete payload irrelevant on this path (closed-form branch assumed): use the recorded step payload
                E = pp.LieTensor(dten, ltype=ATYPE[g]).Exp()
                exp_after[nm] = gmul(g, m.full_terms(E.tensor()), vs)
            else:
                sl = D[k:k + len(vs)]
                k += len(vs)
                exp_after[nm] = [a + b for a, b in zip(vs, sl)]
        loss_re = opt.model.loss(p, y)
        return (sol.calls, Rflat, J, Wt, after, exp_after, m.full_terms(loss), m.full_terms(loss_re), params, R)

    def replay(model):
        # numeric replay on the real code: compare A, b seen by a recording solver with finite-difference J (tangent coordinates)
        torch.manual_seed(3)

        class Rec(nn.Module):
            def __init__(s):
                super().__init__()
                s.calls = []

            def forward(s, A, b):
                s.calls.append((A.clone(), b.clone()))
                return torch.linalg.pinv(A) @ b
        from symx.engine import Ctx, SymMode
        ctx0 = Ctx()
        with SymMode(ctx0) as m0:
            pass
        # build the same model concretely (no engine): reuse make_model with a throw-away mode for tensor construction
        ctx1 = Ctx()
        with SymMode(ctx1) as m1:
            mod, params, p, y, ps, ys, info = make_model(kind, m1)
        rec = Rec()
        W = None
        if weighted:
            nw = 2 if kind == 'SO3-act-batched' else 1
            Lw = torch.tril(torch.randn(nw, 3, 3, dtype=DT)) * 0.3 + torch.eye(3, dtype=DT)
            W = Lw @ Lw.mT
            if nw == 1:
                W = W[0]
        opt = pp.optim.GN(mod, solver=rec, vectorize=vectorize, kernel=mk_kernels())
        before = {nm: ten.data.clone() for nm, k_, g, vs, ten in params}
        try:
            opt.step(p, y, weight=W) if weighted else opt.step(p, y)
        except Exception as e:
            return True, 'GN.step raised %s: %s' % (type(e).__name__, str(e)[:100])
        A, b = rec.calls[0]
        # finite-difference Jacobian in tangent coordinates at the parameters before the step
        for nm, k_, g, vs, ten in params:
            ten.data.copy_(before[nm])

        def resid():
            out = mod(p)
            outs = out if isinstance(out, (tuple, list)) else (out,)
            rs = []
            for i, o in enumerate(outs):
                o = o.tensor() if isinstance(o, pp.LieTensor) else o
                rs.append((o - y if (y is not None and i == 0) else o).reshape(-1))
            return torch.cat(rs)
        cols = []
        h = 1e-6
        with torch.no_grad():
            for nm, k_, g, vs, ten in params:
                if k_ == 'frozen':
                    continue
                n = ADIM[g] if k_ == 'group' else ten.numel()
                for j in range(n):
                    d = torch.zeros(n, dtype=DT)
                    d[j] = h
                    vals = []
                    for sgn in (1, -1):
                        if k_ == 'group':
                            ten.data.copy_((pp.LieTensor(sgn * d, ltype=ATYPE[g]).Exp() @ pp.LieTensor(before[nm], ltype=GTYPE[g])).tensor())
                        else:
                            ten.data.copy_(before[nm] + sgn * d.view(before[nm].shape))
                        vals.append(resid())
                    ten.data.copy_(before[nm])
                    cols.append((vals[0] - vals[1]) / (2 * h))
                if k_ == 'group':
                    for _ in range(GDIM[g] - ADIM[g]):
                        cols.append(torch.zeros_like(cols[-1]))
            Jfd = torch.stack(cols, 1)
            R0 = resid()
            if kernels is not None:
                # documented correction (FastTriggs): every residual item (last dimension) and its Jacobian rows are scaled by
                # sqrt(rho'(|r|^2)); Huber: rho' = 1 below delta^2 and delta/|r| above; no kernel: untouched
                out_ = mod(p)
                outs_ = out_ if isinstance(out_, (tuple, list)) else (out_,)
                scale, off = torch.ones_like(R0), 0
                for i_, o_ in enumerate(outs_):
                    o_ = o_.tensor() if isinstance(o_, pp.LieTensor) else o_
                    o_ = (o_ - y) if (y is not None and i_ == 0) else o_
                    rows = o_.reshape(-1, o_.shape[-1])
                    if kernels[i_] is not None:
                        nr_ = rows.norm(dim=-1)
                        sc = torch.where(nr_ < HUBER_DELTA, torch.ones_like(nr_), (HUBER_DELTA / nr_).sqrt())
                        scale[off:off + rows.numel()] = sc.repeat_interleave(rows.shape[-1])
                    off += rows.numel()
                R0, Jfd = scale * R0, scale.view(-1, 1) * Jfd
            if weighted:
                nblk = R0.numel() // 3
                # documented broadcasting: weight (N,3,3) against residual (B,N,3): item (b,n) uses block n
                blocks = [W] * nblk if W.dim() == 2 else [W[i % W.shape[0]] for i in range(nblk)]
                Wb = torch.block_diag(*blocks)
                Aref, bref = Wb @ Jfd, -(Wb @ R0)
            else:
                Aref, bref = Jfd, -R0
        if A.shape != Aref.shape:
            return True, 'solver saw A of shape %s, expected %s' % (tuple(A.shape), tuple(Aref.shape))
        e = max((A - Aref).abs().max().item(), (b.view(-1) - bref).abs().max().item())
        return e > 1e-5, 'A, b handed to the solver differ from W J, -W R (J by central differences in tangent coordinates) by %.3g' % e

    def on_raise(ctx, e):
        H.absorb(ctx)
        ok, det = replay({})
        if ok:
            H.violation('C07/GN/raises', '%s: %s' % (name, det), {'case': name})
        else:
            H.engine_error(name, e)

    for ctx, (calls, Rflat, J, Wt, after, exp_after, loss, loss_re, params, R) in run_paths(H, name, prog, max_paths=(8 if kernels is None else 16), raised=on_raise):
        pn = H.paths
        hyp = H.hyps_of(ctx)
        rels = [unit_rel(g, vs) for nm, k_, g, vs, ten in params if k_ == 'group']
        A, b, Ashape, bshape = calls[0]
        nr, nc = len(Rflat), len(J[0])
        ok_shape = Ashape == (nr, nc) and len(b) == nr
        H.prove('%s/path%d/shapes' % (name, pn), [], z3.BoolVal(bool(ok_shape)), replay=replay, key='C07/GN/assembly')
        if not ok_shape:
            continue
        if Wt is not None:
            d = 3
            nwb = len(Wt) // (d * d)
            Wms = [T.mat(Wt[k * d * d:(k + 1) * d * d], d, d) for k in range(nwb)]
            nblk = nr // d
            blk = lambda i: Wms[(i // d) % nwb]           # torch broadcasting of the leading dims: item index modulo the weight's batch
            WJ = [[z3.Sum([blk(i)[i % d][l] * J[(i // d) * d + l][j] for l in range(d)]) for j in range(nc)] for i in range(nr)]
            WR = [z3.Sum([blk(i)[i % d][l] * Rflat[(i // d) * d + l] for l in range(d)]) for i in range(nr)]
        else:
            WJ, WR = J, Rflat
        if kernels is not None:
            off = 0
            WJ, WR = [list(r_) for r_ in WJ], list(WR)
            for i_, Rk in enumerate(R):
                width = 2 if kind == 'euclid+two-outputs' else (3 if i_ == 0 else len(Rk))      # residual item = last dimension of the output
                for st in range(0, len(Rk), width):
                    if kernels[i_] is not None:
                        x_ = z3.Sum([Rk[st + c_] * Rk[st + c_] for c_ in range(width)])
                        rt = ctx.tfun('sqrt', x_)
                        rho1 = z3.If(rt < rat(HUBER_DELTA), z3.RealVal(1), rat(HUBER_DELTA) / rt)
                        sc = z3.If(rt < rat(HUBER_DELTA), z3.RealVal(1), ctx.tfun('sqrt', rat(HUBER_DELTA) / rt))
                        for c_ in range(width):
                            WR[off + st + c_] = sc * WR[off + st + c_]
                            WJ[off + st + c_] = [sc * v_ for v_ in WJ[off + st + c_]]
                off += len(Rk)
            hyp = H.hyps_of(ctx)
        from .jac import small_regime
        small = small_regime(ctx)
        tol = z3.RealVal('1/' + '1' + '0' * 20)
        for i in range(nr):
            for j in range(nc):
                if small:
                    d_ = A[i * nc + j] - WJ[i][j]
                    H.prove('%s/path%d/A==WJ[%d,%d]/small-regime' % (name, pn, i, j), hyp, z3.And(d_ <= tol, d_ >= -tol), replay=replay,
                            key='C07/GN/assembly', timeout=15)
                else:
                    H.certify('%s/path%d/A==WJ[%d,%d]' % (name, pn, i, j), A[i * nc + j], WJ[i][j], rels, hyps=hyp, replay=replay, key='C07/GN/assembly')
            H.certify('%s/path%d/b==-WR[%d]' % (name, pn, i), b[i], -WR[i], rels, hyps=hyp, replay=replay, key='C07/GN/assembly')
        # update with the solver's (arbitrary) D
        for nm in after:
            for i, (l, r) in enumerate(zip(after[nm], exp_after[nm])):
                H.prove('%s/path%d/update/%s[%d]' % (name, pn, nm, i), hyp, l == r, replay=replay, key='C07/GN/update', timeout=20)
        H.prove('%s/path%d/returned-loss==loss(new params)' % (name, pn), hyp, loss[0] == loss_re[0], replay=replay, key='C07/GN/loss', timeout=20)
        if pn % 2 == 0:
            H.reach('%s/path%d/reach' % (name, pn), hyp)


def case_lm(H, kind, damping, clamp, strategy='Constant'):
    """LM trials: A_0 = clamp-diag(J^T J), A_k = A_{k-1} + lambda diag(A_{k-1}); b = -J^T R"""
    name = 'C07/LM/%s/damping=%s/clamp=%s%s' % (kind, damping, clamp, '' if strategy == 'Constant' else '/strategy=' + strategy)
    mn, mx = clamp
    mk_strategy = lambda: getattr(pp.optim.strategy, strategy)(damping=damping)

    def replay_trial0(model):
        """real LM.step at the solver's values with a recording solver: a trial must be made (unless J^T R = 0) and its matrix must be
        clamp-diag(J^T J) + lambda diag(.), its right-hand side -J^T R, with J by central differences in tangent coordinates"""
        mod, params, p, y = concrete_instance(kind, model)
        R0, Jfd = fd_residual_jacobian(mod, params, p, y)

        class Rec(nn.Module):
            def __init__(s):
                super().__init__()
                s.calls = []

            def forward(s, A, b):
                s.calls.append((A.clone(), b.clone()))
                return torch.linalg.pinv(A) @ b
        rec = Rec()
        opt = pp.optim.LM(mod, solver=rec, strategy=mk_strategy(), reject=1, min=mn, max=mx)
        try:
            opt.step(p, y)
        except Exception as e:
            return True, 'LM.step raised %s: %s' % (type(e).__name__, str(e)[:100])
        bref = -(Jfd.mT @ R0)
        if not rec.calls:
            return bref.abs().max().item() > 0, 'LM.step made no trial (solver never called) although J^T R is non-zero: |J^T R| = %.3g' % bref.norm().item()
        A0 = Jfd.mT @ Jfd
        dg = A0.diagonal().clamp(mn, mx)
        A0 = A0 - torch.diag(A0.diagonal()) + torch.diag(dg)
        A0 = A0 + damping * torch.diag(A0.diagonal())
        A, b = rec.calls[0]
        e = max(((A - A0).abs().max() / (1 + A0.abs().max())).item(), ((b.view(-1) - bref).abs().max() / (1 + bref.abs().max())).item())
        return e > 1e-5, 'first LM trial: A_0, b differ from clamp-diag(J^T J)(1 + lambda on the diagonal), -J^T R by %.3g (relative; J by central differences)' % e

    def prog(m):
        mod, params, p, y, ps, ys, info = make_model(kind, m)
        R, Rflat, J = oracle_residual_jacobian(m.ctx, m, mod, params, p, y)
        # strategies other than Constant: only the first trial is examined (the recording solver ends the call there; how a strategy
        # moves the damping between trials is C08's subject)
        sol = RecSolver(m, rot_slices=info['rot_slices'], raise_at=(None if strategy == 'Constant' else 0))
        opt = pp.optim.LM(mod, solver=sol, strategy=mk_strategy(), reject=1, min=mn, max=mx)
        try:
            opt.step(p, y)
        except RuntimeError as e:
            if 'injected fault' not in str(e):
                raise
        return sol.calls, Rflat, J, params

    def replay_lm(model):
        from symx.engine import Ctx, SymMode
        with SymMode(Ctx()) as m1:
            mod, params, p, y, ps, ys, info = make_model(kind, m1)

        class Rec(nn.Module):
            def __init__(s):
                super().__init__()
                s.calls = []

            def forward(s, A, b):
                s.calls.append(A.clone())
                g_ = torch.Generator().manual_seed(len(s.calls))
                return 3.0 * torch.randn(A.shape[-1], 1, dtype=A.dtype, generator=g_)      # a bad step: forces rejections
        rec = Rec()
        opt = pp.optim.LM(mod, solver=rec, strategy=pp.optim.strategy.Constant(damping=damping), reject=3, min=mn, max=mx)
        opt.step(p, y)
        worst = 0.0
        for k in range(1, len(rec.calls)):
            want = rec.calls[k - 1] + damping * torch.diag(torch.diag(rec.calls[k - 1]))
            worst = max(worst, ((rec.calls[k] - want).abs().max() / (1 + want.abs().max())).item())
        return worst > 1e-9, 'LM trial matrices violate A_k = A_(k-1) + lambda diag(A_(k-1)) by %.3g (relative) over %d trials' % (worst, len(rec.calls))

    for ctx, (calls, Rflat, J, params) in run_paths(H, name, prog, max_paths=16, max_decisions=40):
        pn = H.paths
        hyp = H.hyps_of(ctx)
        rels = [unit_rel(g, vs) for nm, k_, g, vs, ten in params if k_ == 'group']
        nr, nc = len(Rflat), len(J[0])
        JtJ = [[z3.Sum([J[r][i] * J[r][j] for r in range(nr)]) for j in range(nc)] for i in range(nc)]
        JtR = [z3.Sum([J[r][i] * Rflat[r] for r in range(nr)]) for i in range(nc)]
        lam = rat(damping)
        prev = None
        # every call makes at least one trial (a model with a visibly non-zero gradient is preferred as witness)
        g2 = z3.Sum([x_ * x_ for x_ in JtR])
        H.prove('%s/path%d/a-trial-is-made' % (name, pn), hyp, z3.BoolVal(len(calls) >= 1), key='C07/LM/trial-made', replay=replay_trial0,
                neg_margin=[g2 > z3.RealVal('1/' + '1' + '0' * 24), g2 > 0])
        for k, (A, b, Ashape, bshape) in enumerate(calls):
            if Ashape != (nc, nc):
                H.prove('%s/path%d/trial%d/shape' % (name, pn, k), [], z3.BoolVal(False), key='C07/LM/assembly')
                break
            if k == 0:
                base = [[JtJ[i][j] for j in range(nc)] for i in range(nc)]
                for i in range(nc):
                    dgi = base[i][i]
                    base[i][i] = z3.If(dgi < rat(mn), rat(mn), z3.If(dgi > rat(mx), rat(mx), dgi))
            else:
                base = [[prev[i * nc + j] for j in range(nc)] for i in range(nc)]
            want = [[base[i][j] + (lam * base[i][i] if i == j else 0) for j in range(nc)] for i in range(nc)]
            for i in range(nc):
                for j in range(nc):
                    if k == 0 and i != j:
                        # off-diagonal entries carry no clamp: a polynomial identity modulo the unit-quaternion relations
                        H.certify('%s/path%d/trial%d/A[%d,%d]' % (name, pn, k, i, j), A[i * nc + j], want[i][j], rels, hyps=hyp, key='C07/LM/assembly',
                                  replay=replay_trial0, timeout=20)
                    elif k == 0:
                        d_ = A[i * nc + j] - want[i][j]
                        H.prove('%s/path%d/trial%d/A[%d,%d]' % (name, pn, k, i, j), hyp, A[i * nc + j] == want[i][j], key='C07/LM/assembly', timeout=(10 if i == j else 20),
                                neg_margin=z3.Or(d_ > z3.RealVal('1/1000'), d_ < -z3.RealVal('1/1000')), replay=replay_trial0)
                    else:
                        H.prove('%s/path%d/trial%d/A_k==A_(k-1)+lambda.diag[%d,%d]' % (name, pn, k, i, j), hyp, A[i * nc + j] == want[i][j],
                                key='C07/LM/damping-recursion', timeout=20, replay=replay_lm)
                H.certify('%s/path%d/trial%d/b[%d]' % (name, pn, k, i), b[i], -JtR[i], rels, hyps=hyp, key='C07/LM/assembly', timeout=20,
                          replay=(replay_trial0 if k == 0 else None))
            prev = A
        if pn % 2 == 0:
            H.reach('%s/path%d/reach' % (name, pn), hyp)


def run(H):
    H.assumptions += ['exact real arithmetic', 'valid group parameters', 'steps returned by the (arbitrary) solver keep the retraction on its closed-form branch '
                      '(|rotation part of D| > 1e-3); tiny steps are C01/C05', 'default solvers meet their contract: C10']
    H.bounds += ['model programs: SO3 Act (2 points), SE3 + Euclidean + frozen parameter (1 point; frozen parameter registered last and first), so3 algebra parameter with two residual outputs',
                 'weights: one SPD 3x3 block shared by all items (GN)', 'kernels: a list [None, Huber] on a Euclidean two-output model with the automatically selected correctors', 'LM: Constant strategy, damping in {1e-6, 0.5}, and Adaptive strategy (damping 0.25), clamps active and inactive, reject=1',
                 'the sparse backend (bae) is not installed: sparse=True is outside']
    only = getattr(H, 'only', None)
    jobs = []
    for kind in ('SO3-act', 'SE3+euclid+frozen', 'frozen+SE3+euclid', 'so3-algebra+two-outputs'):
        jobs.append(lambda k=kind: case_gn(H, k, False, True))
    jobs.append(lambda: case_gn(H, 'SO3-act', True, True))
    jobs.append(lambda: case_gn(H, 'SO3-act-batched', True, True))
    jobs.append(lambda: case_gn(H, 'SO3-act', False, False))
    jobs.append(lambda: case_gn(H, 'euclid+two-outputs', False, True, kernels=[None, 'Huber']))
    jobs.append(lambda: case_lm(H, 'SO3-act', 0.5, (1e-6, 1e32)))
    jobs.append(lambda: case_lm(H, 'SO3-act', 1e-6, (0.5, 2.0)))
    jobs.append(lambda: case_lm(H, 'SO3-act', 0.25, (0.5, 2.0), strategy='Adaptive'))
    if not H.quick:
        jobs.append(lambda: case_gn(H, 'SE3+euclid+frozen', True, False))
        jobs.append(lambda: case_lm(H, 'SE3+euclid+frozen', 0.5, (1e-6, 1e32)))
        jobs.append(lambda: case_lm(H, 'so3-algebra+two-outputs', 0.25, (1e-6, 1e32)))
    for j in jobs:
        try:
            j()
        except Exception as e:
            import traceback; traceback.print_exc()
            H.engine_error('c07', e)
    return H.finish(explanation=EXPLAIN)
