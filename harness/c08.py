"""C08 - LM never accepts a worse loss, restores rejected trials, reports the true loss; damping moves as documented."""
import torch
import z3
from torch import nn

import pypose as pp
from symx import terms as T
from symx.engine import rat
from .common import *
from .optcommon import RecSolver, make_model

EXPLAIN = ("LevenbergMarquardt.step (and GaussNewton.step) run under symx on an SO3 Act model with symbolic parameters/data; the linear solver is a "
           "user-supplied object returning ARBITRARY symbolic steps (so 'the first k trials increase the loss' is just a satisfiable path) and "
           "optionally raising at the j-th solve. Every feasible decision path of the accept/reject loop and of the strategy's quality tests is "
           "explored, for 1-2 consecutive calls (cached loss carries over) and reject in {0,1,2}. Per path: returned value = optimizer.loss = "
           "robust loss re-evaluated at the parameters left behind; accepted loss <= loss before unless the rejection budget was exhausted (from "
           "the path condition); a rejected trial restores the parameters (Exp(-D)Exp(D)X = X, exact); at most reject+1 trials; a raising solver "
           "leaves parameters and loss as before that trial; after each trial the damping/radius/down factor equal the documented transition "
           "for the quality regime decided on that path and stay in [min,max].")


def strategy_objects(quick):
    S = pp.optim.strategy
    out = [('Constant', lambda: S.Constant(damping=0.1)), ('Adaptive', lambda: S.Adaptive(damping=0.15, high=0.5, low=1e-3, up=2.0, down=0.5, min=0.1, max=0.25)),       # both of the strategy's OWN bounds bind after one update
          
           ('TrustRegion', lambda: S.TrustRegion(radius=4.0, high=0.5, low=1e-3, up=2.0, down=0.5, factor=0.5, min=1e-3, max=100.0))]
    if not quick:
        out += [('Adaptive-b', lambda: S.Adaptive(damping=1e-3, high=0.7, low=0.1, up=3.0, down=0.25, min=1e-3, max=0.01)),
                ('TrustRegion-b', lambda: S.TrustRegion(radius=0.5, high=0.6, low=0.2, up=4.0, down=0.25, factor=0.25, min=0.2, max=1.5))]
    return out


class SpyStrategy:
    """wraps the real strategy: records (quality regime decided on this path, pg before, pg after) for every update call"""
    def __init__(self, inner, m):
        self.inner, self.m, self.log = inner, m, []
        self.defaults = inner.defaults

    def __getattr__(self, k):
        return getattr(self.inner, k)

    def update(self, pg, last, loss, J, D, R, *a, **kw):
        before = {k: v for k, v in pg.items() if k != 'params'}
        nd = len(self.m.ctx.trace)
        self.inner.update(pg, last=last, loss=loss, J=J, D=D, R=R)
        after = {k: v for k, v in pg.items() if k != 'params'}
        decided = [(str(p)[:60], t) for (p, t, _) in self.m.ctx.trace[nd:]]
        # the oracle's own quality term
        q = None
        try:
            JD = self.m.full_terms(J @ D)
            Rt = self.m.full_terms(R)
            den = -z3.Sum([a_ * (2 * r_ + a_) for a_, r_ in zip(JD, Rt)])
            q = (self.m.full_terms(last)[0] - self.m.full_terms(loss)[0]) / den
        except Exception:
            pass
        self.log.append((before, after, [t for _, t in decided], q))


def expected_transition(sname, before, regime, inner):
    """documented transition; regime: 'high' (quality > high), 'mid' (low < quality <= high), 'low'"""
    b = dict(before)
    clampf = lambda v: max(inner.min, min(v, inner.max))
    if sname.startswith('Constant'):
        return {'damping': b['damping']}
    if sname.startswith('Adaptive'):
        d = b['damping'] * (b['down'] if regime == 'high' else (1.0 if regime == 'mid' else b['up']))
        return {'damping': clampf(d)}
    radius = 1.0 / b['damping']
    if regime == 'high':
        radius, down = b['up'] * radius, inner.down
    elif regime == 'mid':
        radius, down = radius, inner.down
    else:
        radius, down = radius * b['down'], b['down'] * b['factor']
    down, radius = clampf(down), clampf(radius)
    return {'radius': radius, 'down': down, 'damping': 1.0 / radius}


def true_loss(mod, p, y):
    """the robust loss with the trivial kernel, from the model's outputs themselves (NOT through the optimizer's RobustModel):
    the sum over ALL residual blocks of the squared norm"""
    with torch.no_grad():
        out = mod(p)
    outs = out if isinstance(out, (tuple, list)) else (out,)
    tot = 0
    for o in outs:
        o = o.tensor() if isinstance(o, pp.LieTensor) else o
        r = o - y if y is not None else o
        tot = tot + r.square().sum()
    return tot.reshape(1)


def case_lm(H, sname, mk_strategy, reject, ncalls, raise_at=None, model='SO3-act'):
    name = 'C08/LM/%s/reject=%d/calls=%d%s' % (sname, reject, ncalls, '' if raise_at is None else '/solver-raises-at-%d' % raise_at)
    if model != 'SO3-act':
        name += '/model=' + model
    mkind = model

    def prog(m):
        mod, params, p, y, ps, ys, info = make_model(model, m)
        sol = RecSolver(m, raise_at=raise_at, rot_slices=info['rot_slices'])
        spy = SpyStrategy(mk_strategy(), m)
        opt = pp.optim.LM(mod, solver=sol, strategy=spy, reject=reject)
        xs = params[0][3]
        hist = []
        upd = [0]
        real_update = opt.update_parameter

        def counting_update(*a, **k):
            upd[0] += 1
            return real_update(*a, **k)
        opt.update_parameter = counting_update
        for c in range(ncalls):
            n0 = len(sol.calls)
            u0 = upd[0]
            before_terms = m.full_terms(params[0][4].data)
            loss_before = m.full_terms(true_loss(mod, p, y))[0]
            ret = opt.step(p, y)
            after_terms = m.full_terms(params[0][4].data)
            loss_after = m.full_terms(true_loss(mod, p, y))[0]
            hist.append(dict(ret=m.full_terms(ret)[0], optloss=m.full_terms(opt.loss)[0], loss_before=loss_before, loss_after=loss_after,
                             before=before_terms, after=after_terms, trials=len(sol.calls) - n0, reject_count=opt.reject_count,
                             reverts=(upd[0] - u0) - (len(sol.calls) - n0 - (1 if (raise_at is not None and n0 <= raise_at < len(sol.calls)) else 0)),
                             raised=(raise_at is not None and n0 <= raise_at < len(sol.calls))))
        return hist, spy.log, xs, spy.inner

    def replay(model):
        # concrete run with a solver returning bad steps first: checks the bookkeeping clauses numerically
        from symx.engine import Ctx, SymMode
        with SymMode(Ctx()) as m1:
            mod, params, p, y, ps, ys, info = make_model(mkind, m1)

        class Rec(nn.Module):
            def __init__(s):
                super().__init__()
                s.n = 0

            def forward(s, A, b):
                s.n += 1
                if raise_at is not None and s.n - 1 == raise_at:
                    raise RuntimeError('injected')
                good = torch.linalg.solve(A, b)
                # two bad trials, then a good one (a short step AGAINST the descent direction raises the loss to first order)
                return -0.3 * good if (s.n % 3) != 0 else good
        rec = Rec()
        opt = pp.optim.LM(mod, solver=rec, strategy=mk_strategy(), reject=reject)
        bad = []
        upd = [0]
        real_update = opt.update_parameter

        def counting_update(*a, **k):
            upd[0] += 1
            return real_update(*a, **k)
        opt.update_parameter = counting_update
        for c in range(ncalls + 1):
            u0 = upd[0]
            x0 = params[0][4].data.clone()
            l0 = true_loss(mod, p, y).item()
            n0 = rec.n
            ret = opt.step(p, y)
            l1 = true_loss(mod, p, y).item()
            trials = rec.n - n0
            if abs(ret.item() - l1) > 1e-9 * (1 + abs(l1)):
                bad.append('call %d: returned loss %.9g but the loss at the parameters left behind is %.9g' % (c, ret.item(), l1))
            rejections = (upd[0] - u0) - trials                  # reverted trials, counted by the harness (not read from the optimizer)
            if l1 > l0 * (1 + 1e-12) + 1e-12 and rejections < reject:
                bad.append('call %d: loss went up %.6g -> %.6g after %d trial(s) with only %d rejection(s) in this call (budget %d)' % (
                    c, l0, l1, trials, rejections, reject))
            if trials > reject + 1:
                bad.append('call %d: %d trials with reject=%d' % (c, trials, reject))
        return bool(bad), '; '.join(bad[:3]) or 'bookkeeping consistent'

    for ctx, (hist, slog, xs, inner) in run_paths(H, name, prog, max_paths=(10 if H.quick else 24), max_decisions=60, feas_timeout_ms=(250 if H.quick else 600)):
        pn = H.paths
        hyp = H.hyps_of(ctx)
        to = 10 if H.quick else 90
        rel = [unit_rel('SO3', xs)] if model == 'SO3-act' else []
        for c, h in enumerate(hist):
            tag = '%s/path%d/call%d' % (name, pn, c)
            H.prove(tag + '/returned==optimizer.loss', hyp, h['ret'] == h['optloss'], replay=replay, key='C08/LM/reported-loss', timeout=to)
            # also in a call that the solver ended by raising: "the parameters and the loss as they were before that trial"
            H.prove(tag + '/returned==loss(final params)', hyp, h['ret'] == h['loss_after'], replay=replay, key='C08/LM/reported-loss', timeout=to)
            H.prove(tag + '/trials<=reject+1', [], z3.BoolVal(h['trials'] <= reject + 1), replay=replay, key='C08/LM/trial-budget')
            rejections = h['reverts']                                # reverted trials in THIS call, counted by the harness
            accepted = rejections < h['trials'] - (1 if h['raised'] else 0)
            if rejections < reject and not h['raised']:
                # follows from the loop's own comparisons on this path: decided on the linear abstraction (losses opaque)
                H.prove(tag + '/not-worse-unless-budget-exhausted', list(ctx.assume) + list(ctx.pc), h['loss_after'] <= h['loss_before'], replay=replay,
                        key='C08/LM/monotone', timeout=to, linear=True)
            # all trials rejected (or solver raised at the first trial of the call): parameters restored
            all_rejected = False
            # a call in which the loss did not decrease (returned loss == loss before) must leave the parameters where they were
            if h['trials'] > 0 and z3.is_true(z3.simplify(h['ret'] == h['loss_before'])) and not accepted:
                all_rejected = True
            if all_rejected or (not accepted and h['trials'] > 0):
                for i, (a, b) in enumerate(zip(h['after'], h['before'])):
                    H.prove(tag + '/rejected-trials-restore-parameters[%d]' % i, hyp, a == b, replay=replay, key='C08/LM/restore', timeout=to)
                H.prove(tag + '/loss-unchanged-after-rejections', hyp, h['loss_after'] == h['loss_before'], replay=replay, key='C08/LM/restore', timeout=to)
        # strategy transitions on this path
        for k, (before, after, decided, q) in enumerate(slog):
            # regime from the strategy's own comparisons on this path: [q > high] then (if false) [q > low]
            if sname.startswith('Constant'):
                regime = 'mid'
            else:
                regime = 'high' if (decided and decided[0]) else ('mid' if (len(decided) > 1 and decided[1]) else 'low')
            exp = expected_transition(sname, before, regime, inner)
            ok = all(abs(after[kk] - vv) <= 1e-12 * (1 + abs(vv)) for kk, vv in exp.items())
            inr = True
            if not sname.startswith('Constant'):
                lo, hi = inner.min, inner.max
                if sname.startswith('Adaptive'):
                    inr = lo - 1e-15 <= after['damping'] <= hi + 1e-15
                else:
                    inr = lo - 1e-15 <= after['radius'] <= hi + 1e-15 and lo - 1e-15 <= after['down'] <= hi + 1e-15
            H.prove('%s/path%d/trial%d/damping-transition(%s)' % (name, pn, k, regime), [], z3.BoolVal(bool(ok and inr)), key='C08/strategy/%s' % sname.split('-')[0],
                    replay=lambda model, b=before, a=after, r=regime, e=exp: (True, 'strategy %s in regime %s moved %s -> %s, documented %s' % (
                        sname, r, {k_: b[k_] for k_ in e}, {k_: a[k_] for k_ in e}, e)))
            # the regime decided by the code is the regime of the documented quality ratio (oracle's own quality term)
            if q is not None and not sname.startswith('Constant'):
                hi_, lo_ = rat(before['high']), rat(before['low'])
                want = {'high': q > hi_, 'mid': z3.And(q <= hi_, q > lo_), 'low': q <= lo_}[regime]
                H.prove('%s/path%d/trial%d/quality-regime' % (name, pn, k), hyp, want, key='C08/strategy/%s' % sname.split('-')[0], timeout=to)
        if pn % 4 == 0:
            H.reach('%s/path%d/reach' % (name, pn), hyp)


def case_gn(H):
    name = 'C08/GN/loss-bookkeeping'

    def prog(m):
        mod, params, p, y, ps, ys, info = make_model('SO3-act', m)
        sol = RecSolver(m, rot_slices=info['rot_slices'])
        opt = pp.optim.GN(mod, solver=sol)
        l0 = m.full_terms(opt.model.loss(p, y))[0]
        r1 = m.full_terms(opt.step(p, y))[0]
        last1 = m.full_terms(opt.last)[0]
        l1 = m.full_terms(opt.model.loss(p, y))[0]
        r2 = m.full_terms(opt.step(p, y))[0]
        last2 = m.full_terms(opt.last)[0]
        l2 = m.full_terms(opt.model.loss(p, y))[0]
        return l0, r1, last1, l1, r2, last2, l2
    for ctx, (l0, r1, last1, l1, r2, last2, l2) in run_paths(H, name, prog, max_paths=8):
        hyp = H.hyps_of(ctx)
        pn = H.paths
        H.prove('%s/path%d/step1-returns-new-loss' % (name, pn), hyp, r1 == l1, key='C08/GN/loss', timeout=20)
        H.prove('%s/path%d/step1-records-previous' % (name, pn), hyp, last1 == l0, key='C08/GN/loss', timeout=20)
        H.prove('%s/path%d/step2-returns-new-loss' % (name, pn), hyp, r2 == l2, key='C08/GN/loss', timeout=20)
        H.prove('%s/path%d/step2-records-previous' % (name, pn), hyp, last2 == l1, key='C08/GN/loss', timeout=20)


def run(H):
    H.assumptions += ['exact real arithmetic', 'steps from the arbitrary solver keep the retraction on its closed-form branch']
    H.bounds += ['model: SO3 Act residual on 2 points; a Euclidean model with TWO residual outputs and no kernel (the reference loss is computed from the model outputs, not by RobustModel)', 'reject in {0,1,2} (thorough 3), 1-2 consecutive step() calls (each call starts from arbitrary symbolic '
                 'parameters and carries only the cached loss: an inductive step over longer histories)', 'strategy hyper-parameters: 3 (thorough 5) concrete settings',
                 'solver fault injected at solve 0, 1, 2']
    jobs = []
    S3 = strategy_objects(True)
    if H.quick:
        jobs.append(lambda: case_lm(H, 'Constant', S3[0][1], 1, 1))
        jobs.append(lambda: case_lm(H, 'Adaptive', S3[1][1], 1, 1))
        jobs.append(lambda: case_lm(H, 'TrustRegion', S3[2][1], 0, 1))
        jobs.append(lambda: case_lm(H, 'TrustRegion', S3[2][1], 1, 1))
        jobs.append(lambda: case_lm(H, 'Constant', S3[0][1], 1, 2))
        jobs.append(lambda: case_lm(H, 'Constant', S3[0][1], 1, 1, raise_at=0))
        jobs.append(lambda: case_lm(H, 'Constant', S3[0][1], 1, 1, raise_at=1))
        jobs.append(lambda: case_lm(H, 'Constant', S3[0][1], 1, 1, model='euclid+two-outputs'))
    else:
        for sname, mk in strategy_objects(False):
            jobs.append(lambda s=sname, k=mk: case_lm(H, s, k, 1, 1))
        jobs.append(lambda: case_lm(H, 'TrustRegion', S3[2][1], 0, 1))
        jobs.append(lambda: case_lm(H, 'TrustRegion', S3[2][1], 2, 1))
        jobs.append(lambda: case_lm(H, 'Constant', S3[0][1], 1, 2))
        jobs.append(lambda: case_lm(H, 'TrustRegion', S3[2][1], 1, 2))
        jobs.append(lambda: case_lm(H, 'Adaptive', S3[1][1], 2, 2))
        for j in (0, 1, 2):
            jobs.append(lambda j=j: case_lm(H, 'Constant', S3[0][1], 2, 1, raise_at=j))
    jobs.append(lambda: case_gn(H))
    if not H.quick:
        jobs.append(lambda: case_lm(H, 'Constant', S3[0][1], 1, 1, model='euclid+two-outputs'))
        jobs.append(lambda: case_lm(H, 'TrustRegion-b', strategy_objects(False)[4][1], 3, 2))
        jobs.append(lambda: case_lm(H, 'Adaptive-b', strategy_objects(False)[3][1], 3, 1))
    for j in jobs:
        try:
            j()
        except Exception as e:
            import traceback; traceback.print_exc()
            H.engine_error('c08', e)
    return H.finish(explanation=EXPLAIN)
