"""C20 - stopping controllers: StopOnPlateau (CrossHair, one inductive step), ReduceToBason + driver loops (symx)."""
import os
import re
import subprocess
import sys
import time

import torch
import z3

import pypose as pp
from pypose.utils.stepper import ReduceToBason
from symx.engine import explore, Unsupported, BoundExhausted
from .common import *

EXPLAIN = ("StopOnPlateau.step: CrossHair (symbolic execution of the real Python method with z3) proves the documented "
           "one-step transition from an ARBITRARY controller state - an inductive step covering every loss history of every "
           "length. ReduceToBason.step/reset and the driver loops (scheduler.optimize, MPC.forward, ICP.forward with stubbed "
           "lqr/knn/svdtf returning symbolic costs) run under the symx engine with symbolic 0-d and batched losses; every "
           "feasible decision path is explored and the transition/budget obligations are discharged by z3.")
BIG = z3.RealVal(10) ** 300 if False else z3.RealVal('1' + '0' * 300)
SPEC = os.path.join(os.path.dirname(os.path.abspath(__file__)), 'specs', 'c20_spec.py')


# ------------------------------------------------------------------------------------------- CrossHair part
def crosshair_part(H):
    t0 = time.time()
    lines = open(SPEC).read().splitlines()
    target = [i + 1 for i, l in enumerate(lines) if l.startswith('def step_spec')][0]
    budget = 90 if H.quick else 400
    cmd = [sys.executable, '-W', 'ignore', '-m', 'crosshair', 'check', '--report_all', '--per_condition_timeout', str(budget),
           '%s:%d' % (SPEC, target + 2)]
    env = dict(os.environ, PYTHONPATH=os.pathsep.join(['/verif'] + [p_ for p_ in os.environ.get('PYTHONPATH', '').split(os.pathsep) if p_]))
    try:
        p = subprocess.run(cmd, capture_output=True, text=True, timeout=budget * 2 + 120, env=env)
        out = p.stdout + p.stderr
    except subprocess.TimeoutExpired:
        out = 'timeout'
    H.extra['crosshair_output'] = [l for l in out.splitlines() if 'c20_spec' in l][:10]
    H.extra['crosshair_time_s'] = round(time.time() - t0, 1)
    from symx.harness import Ob
    ob = Ob('C20/StopOnPlateau.step/one-step-transition(CrossHair)', [], z3.BoolVal(True), 'prove', budget)
    ob.res = {'result': 'unknown', 'strategy': 'crosshair', 'time': time.time() - t0}
    if 'Confirmed over all paths' in out:
        ob.status = 'unsat'
        ob.res['result'] = 'unsat'
        ob.detail = 'CrossHair: Confirmed over all paths'
    else:
        mm = re.search(r'error: (.*?) when calling (step_spec\(.*\))', out)
        if mm:
            call = mm.group(2)
            # replay the reported call concretely against the real code
            import importlib.util
            spec = importlib.util.spec_from_file_location('c20_spec', SPEC)
            mod = importlib.util.module_from_spec(spec)
            spec.loader.exec_module(mod)
            try:
                ok = eval(call, {'step_spec': mod.step_spec, 'float': float, 'nan': float('nan'), 'inf': float('inf')})
            except Exception as e:
                ok = 'raised %s' % type(e).__name__
            if ok is not True:
                ob.status = 'violation'
                ob.detail = 'CrossHair counterexample reproduces: %s -> %s' % (call, ok)
                H.violation('C20/StopOnPlateau/step', ob.detail, {'call': call})
            else:
                ob.status = 'sat-spurious'
                ob.detail = 'CrossHair counterexample did not reproduce: %s' % call
        else:
            ob.status = 'unknown'
            ob.detail = 'CrossHair inconclusive: %s' % out.strip().splitlines()[-1:][:1]
    ob.goal = z3.Bool('StopOnPlateau_step_matches_documented_transition')
    H.obs.append(ob)
    H.funcs.add('pypose/optim/scheduler.py:StopOnPlateau.step')


# ------------------------------------------------------------------------------------------- symx part
def rtb_step_case(H, s0, mx, c0, pat, k0, batched):
    name = 'C20/ReduceToBason.step/steps=%d/max=%d/count=%d/patience=%d/cont=%s/%s' % (s0, mx, c0, pat, k0, 'batched' if batched else '0d')
    dec, tol = 1e-3, 1e-5

    def prog(m):
        st = ReduceToBason(steps=mx, patience=pat, decreasing=dec, tol=tol)
        shape = (2,) if batched else ()
        last = torch.rand(shape, dtype=DT) + 1.0
        loss = torch.rand(shape, dtype=DT) + 0.5
        ls = m.symbolic(last, 'last')
        xs = m.symbolic(loss, 'loss')
        # losses are signed (an LQR / MPC cost with linear terms is negative at the optimum); only loss != 0 (the documented relative decrease divides by it)
        m.ctx.assume += [z3.And(x != 0, x > -BIG, x < BIG) for x in xs] + [z3.And(l > -BIG, l < BIG) for l in ls]
        st.steps, st.patience_count, st._continual, st.last = s0, c0, k0, last
        st.step(loss)
        return st, ls, xs, m.full_terms(st.last), m

    for ctx, (st, ls, xs, lastt, m) in run_paths(H, name, prog):
        hyp = H.hyps_of(ctx)
        below = z3.And([x < rat_(tol) for x in xs])
        nodec = z3.And([(l - x) / x < rat_(dec) for l, x in zip(ls, xs)])
        c2 = z3.If(nodec, c0 + 1, 0)
        stop = z3.Or(below, z3.BoolVal(s0 + 1 >= mx), c2 >= pat)
        exp_cont = z3.And(z3.BoolVal(k0), z3.Not(stop))
        pn = H.paths

        def replay(model, s0=s0, mx=mx, c0=c0, pat=pat, k0=k0, batched=batched, ls=ls, xs=xs):
            st = ReduceToBason(steps=mx, patience=pat, decreasing=dec, tol=tol)
            last = tensor_from_env(names_of(ls), model).reshape((2,) if batched else ())
            loss = tensor_from_env(names_of(xs), model).reshape((2,) if batched else ())
            st.steps, st.patience_count, st._continual, st.last = s0, c0, k0, last
            st.step(loss)
            below = bool((loss < tol).all())
            nodec = bool((((last - loss) / loss) < dec).all())
            c2 = c0 + 1 if nodec else 0
            exp = k0 and not (below or s0 + 1 >= mx or c2 >= pat)
            bad = (st.continual() != exp) or st.patience_count != c2 or st.steps != s0 + 1
            return bad, 'continual()=%s expected %s, patience_count=%s expected %s, steps=%s' % (st.continual(), exp, st.patience_count, c2, st.steps)
        H.prove('%s/path%d/continual' % (name, pn), hyp, z3.BoolVal(bool(st.continual())) == exp_cont, replay=replay, key='C20/ReduceToBason/step')
        H.prove('%s/path%d/patience_count' % (name, pn), hyp, z3.IntVal(int(st.patience_count)) == c2, replay=replay, key='C20/ReduceToBason/step')
        H.prove('%s/path%d/steps' % (name, pn), [], z3.BoolVal(st.steps == s0 + 1), key='C20/ReduceToBason/step')
        H.prove('%s/path%d/last' % (name, pn), [], z3.And([a == b for a, b in zip(lastt, xs)]), key='C20/ReduceToBason/step')
        if pn % 7 == 0:
            H.reach('%s/path%d/reach' % (name, pn), hyp)


def rat_(v):
    from symx.engine import rat
    return rat(v)


def rtb_reset_case(H):
    """reset() restores the initial state from every reachable state (the fields that step() writes)"""
    fresh = ReduceToBason(steps=5, patience=2)
    init = {k: v for k, v in vars(fresh).items()}
    bad = []
    for hist in ([1.0], [1.0, 1.0], [1.0, 1.0, 1.0], [3.0, 2.0, 1.0, 1.0, 1.0, 1.0], [1e-9], [5.0, 4.0, 3.0, 2.0, 1.0, 0.5, 0.2]):
        st = ReduceToBason(steps=5, patience=2)
        for l in hist:
            st.step(torch.tensor(l))
        st.reset()
        for k, v in init.items():
            w = getattr(st, k)
            same = bool(torch.equal(torch.as_tensor(v), torch.as_tensor(w)))
            if not same:
                bad.append((hist, k, w))
    ok = not bad
    ob = H.prove('C20/ReduceToBason.reset/restores-initial-state', [], z3.BoolVal(ok), key='C20/ReduceToBason/reset',
                 replay=lambda model: (not ok, 'after reset() field(s) differ from a fresh stepper: %s' % bad[:3]))
    if not ok:
        # syntactically false goal: route through the normal violation path
        H.violation('C20/ReduceToBason/reset', 'reset() does not restore the initial state: %s' % bad[:3], {'bad': str(bad[:5])})


def rtb_reset_symbolic(H):
    """same under the engine with an arbitrary (symbolic) last loss and arbitrary counters: after reset() a step behaves
    exactly as the first step of a fresh stepper"""
    name = 'C20/ReduceToBason.reset/then-step-equals-fresh'

    def prog(m):
        a = ReduceToBason(steps=4, patience=1, decreasing=1e-3, tol=1e-5)
        b = ReduceToBason(steps=4, patience=1, decreasing=1e-3, tol=1e-5)
        prev = torch.rand((), dtype=DT) + 0.5
        loss = torch.rand((), dtype=DT) + 0.5
        ps = m.symbolic(prev, 'prev')
        xs = m.symbolic(loss, 'loss')
        m.ctx.assume += [ps[0] > 0, xs[0] > 0, ps[0] < BIG, xs[0] < BIG]
        a.step(prev)
        a.step(prev)            # history: whatever happened before
        a.reset()
        a.step(loss)
        b.step(loss)
        return a, b
    for ctx, (a, b) in run_paths(H, name, prog):
        same = (a.continual() == b.continual()) and a.patience_count == b.patience_count and a.steps == b.steps
        pn = H.paths

        def replay(model):
            a = ReduceToBason(steps=4, patience=1, decreasing=1e-3, tol=1e-5)
            b = ReduceToBason(steps=4, patience=1, decreasing=1e-3, tol=1e-5)
            prev, loss = torch.tensor(float(model.get('prev0', 1.0))), torch.tensor(float(model.get('loss0', 1.0)))
            a.step(prev); a.step(prev); a.reset(); a.step(loss); b.step(loss)
            bad = (a.continual() != b.continual()) or a.patience_count != b.patience_count or a.steps != b.steps
            return bad, 're-used stepper after reset(): continual=%s count=%s vs fresh continual=%s count=%s' % (a.continual(), a.patience_count, b.continual(), b.patience_count)
        # the path condition of this path must be infeasible if behaviour differs; i.e. prove PC => same
        H.prove('%s/path%d' % (name, pn), H.hyps_of(ctx), z3.BoolVal(bool(same)), replay=replay, key='C20/ReduceToBason/reset')


class _StubOpt(pp.optim.optimizer._Optimizer):
    def __init__(self, m, nmax, rejects):
        self.m, self.calls, self.loss, self.last, self.rejects, self.nmax = m, 0, None, None, rejects, nmax
        self.vars = []

    def step(self, input, target=None, weight=None):
        if self.calls >= self.nmax:
            raise BoundExhausted('driver loop exceeded the exploration bound')
        l = torch.rand((), dtype=DT)
        v = self.m.symbolic(l, 'l%d_' % self.calls)
        self.vars += v
        self.m.ctx.assume += [v[0] > -BIG, v[0] < BIG]
        self.last = self.loss if self.loss is not None else l + 1.0
        self.loss = l
        self.reject_count = self.rejects[self.calls] if self.calls < len(self.rejects) else 0
        self.calls += 1
        return l


def optimize_loop_case(H, mx, pat, rejects):
    name = 'C20/StopOnPlateau.optimize/max=%d/patience=%d/rejects=%s' % (mx, pat, rejects)

    def prog(m):
        opt = _StubOpt(m, mx + 3, rejects)
        sch = pp.optim.scheduler.StopOnPlateau(opt, steps=mx, patience=pat, decreasing=1e-3)
        sch.optimize(None)
        return opt.calls, sch.steps

    for ctx, (calls, steps) in run_paths(H, name, prog, max_paths=64):
        pn = H.paths
        H.prove('%s/path%d/within-budget' % (name, pn), H.hyps_of(ctx), z3.BoolVal(1 <= calls <= mx and steps == calls),
                key='C20/optimize/budget',
                replay=lambda model: (True, 'optimize() made %d optimizer steps with max_steps=%d' % (calls, mx)))
        # a rejected step must stop the loop right there
        first_rej = next((i for i, r in enumerate(rejects) if r > 0), None)
        if first_rej is not None and first_rej < mx:
            H.prove('%s/path%d/stops-on-rejection' % (name, pn), H.hyps_of(ctx), z3.BoolVal(calls <= first_rej + 1), key='C20/optimize/rejection',
                    replay=lambda model: (True, 'optimize() continued after a rejected step: %d calls, first rejection at call %d' % (calls, first_rej + 1)))


def mpc_loop_case(H, steps, pat):
    name = 'C20/MPC.forward/steps=%d/patience=%d' % (steps, pat)
    n_state, n_ctrl, T = 1, 1, 2

    def prog(m):
        A, B = torch.eye(1, dtype=DT), torch.eye(1, dtype=DT)
        C, D = torch.eye(1, dtype=DT), torch.zeros(1, 1, dtype=DT)
        sys_ = pp.module.LTI(A, B, C, D)
        Q = torch.eye(2, dtype=DT).repeat(1, 1, 1)
        p = torch.zeros(1, 2, dtype=DT)
        stepper = ReduceToBason(steps=steps, patience=pat)
        mpc = pp.module.MPC(sys_, Q, p, T, stepper=stepper)
        calls = []

        class StubLQR(torch.nn.Module):
            def forward(self, x_init, dt=1, u_traj=None, **kw):
                if len(calls) > steps + 4:
                    raise BoundExhausted('driver loop exceeded the exploration bound')
                cost = torch.rand(1, dtype=DT) + 0.5
                v = m.symbolic(cost, 'c%d_' % len(calls))
                m.ctx.assume += [v[0] > 0, v[0] < BIG]
                calls.append(1)
                return torch.zeros(1, T + 1, 1, dtype=DT), torch.zeros(1, T, 1, dtype=DT), cost
        mpc.lqr = StubLQR()
        mpc(1, torch.zeros(1, 1, dtype=DT))
        return len(calls), stepper.steps
    for ctx, (calls, ssteps) in run_paths(H, name, prog, max_paths=128):
        pn = H.paths
        H.prove('%s/path%d/within-budget' % (name, pn), H.hyps_of(ctx), z3.BoolVal(ssteps <= steps and calls <= steps + 1),
                key='C20/MPC/budget', replay=lambda model: (True, 'MPC made %d controller steps / %d lqr calls with steps=%d' % (ssteps, calls, steps)))


def icp_loop_case(H, steps, pat):
    name = 'C20/ICP.forward/steps=%d/patience=%d' % (steps, pat)
    import pypose.module.icp as icpmod

    def prog(m):
        stepper = ReduceToBason(steps=steps, patience=pat)
        icp = pp.module.ICP(stepper=stepper)
        calls = []
        src = torch.rand(4, 3, dtype=DT)
        tgt = torch.rand(4, 3, dtype=DT)
        real_knn, real_svdtf = icpmod.knn, icpmod.svdtf

        def stub_knn(a, b, k=1, ord=2, dim=-1, **kw):
            if len(calls) > steps + 4:
                raise BoundExhausted('driver loop exceeded the exploration bound')
            d = torch.rand(4, 1, dtype=DT) + 0.5
            v = m.symbolic(d, 'd%d_' % len(calls))
            m.ctx.assume += [z3.And(x > 0, x < BIG) for x in v]
            calls.append(1)
            return d, torch.zeros(4, 1, dtype=torch.int64)

        def stub_svdtf(a, b):
            return pp.identity_SE3(dtype=DT)
        icpmod.knn, icpmod.svdtf = stub_knn, stub_svdtf
        try:
            icp(src, tgt)
        finally:
            icpmod.knn, icpmod.svdtf = real_knn, real_svdtf
        return len(calls), stepper.steps
    for ctx, (calls, ssteps) in run_paths(H, name, prog, max_paths=128):
        pn = H.paths
        H.prove('%s/path%d/within-budget' % (name, pn), H.hyps_of(ctx), z3.BoolVal(ssteps <= steps and calls <= steps),
                key='C20/ICP/budget', replay=lambda model: (True, 'ICP made %d controller steps with steps=%d' % (ssteps, steps)))


def run(H):
    H.assumptions += ['CrossHair and symx treat floats as reals', 'losses are finite; ReduceToBason losses non-zero, either sign, in the step cases (positive in the driver-loop cases)',
                      'stubs: optimizer.step / LQR / knn / svdtf return arbitrary (symbolic) losses']
    H.bounds += ['StopOnPlateau.step: all ints <= 1000 (CrossHair, per-condition timeout)',
                 'ReduceToBason.step: boundary-covering set of (steps,max_steps,patience_count,patience,continual) x {0-d, batch 2}',
                 'driver loops: budgets <= %d steps' % (3 if H.quick else 4)]
    H.stubs |= {'optimizer.step -> fresh symbolic loss', 'LQR.forward -> fresh symbolic cost', 'knn -> fresh symbolic distances', 'svdtf -> identity'}
    try:
        crosshair_part(H)
    except Exception as e:
        H.engine_error('crosshair', e)
    sm = [(0, 1), (0, 2), (1, 2), (3, 5), (4, 5), (5, 5)]
    cp = [(0, 1), (0, 2), (1, 2), (2, 3), (3, 4)]
    if not H.quick:
        sm = [(s, mx) for mx in range(1, 7) for s in range(0, mx + 1)]
        cp = [(c, p) for p in range(1, 5) for c in range(0, p + 1)]
    for (s0, mx) in sm:
        for (c0, pat) in cp:
            for k0 in (True, False):
                for batched in (False, True):
                    try:
                        rtb_step_case(H, s0, mx, c0, pat, k0, batched)
                    except Exception as e:
                        H.engine_error('rtb_step', e)
    for f in (rtb_reset_case, rtb_reset_symbolic):
        try:
            f(H)
        except Exception as e:
            H.engine_error(f.__name__, e)
    top = 3 if H.quick else 4
    for mx in range(1, top + 1):
        for pat in (1, 2):
            for rejects in ([0] * 6, [0, 1, 0, 0, 0, 0], [0, 0, 2, 0, 0, 0], [3, 0, 0, 0, 0, 0]):
                try:
                    optimize_loop_case(H, mx, pat, rejects)
                except Exception as e:
                    H.engine_error('optimize_loop', e)
    for steps in range(2, top + 1):
        for pat in (1, 2):
            for f in (mpc_loop_case, icp_loop_case):
                try:
                    f(H, steps, pat)
                except Exception as e:
                    import traceback
                    traceback.print_exc()
                    H.engine_error(f.__name__, e)
    return H.finish(explanation=EXPLAIN)
