"""C15 - dynamics follow their equations; system time; NLS linearisation is exact at the reference point."""
import itertools

import torch
import z3

import pypose as pp
from symx import terms as T
from symx.terms import diff
from symx.engine import rat
from .common import *

EXPLAIN = ("LTI/LTV forward run under symx with symbolic A,B,C,D,c1,c2,x,u (every presence pattern of c1/c2, batched and unbatched "
           "shapes, every time index of a time-indexed LTV): outputs must equal Ax+Bu+c1 and Cx+Du+c2 for all values. System time "
           "is a SYMBOLIC integer in shadow memory: one call from an arbitrary time t gives t+1, reset(k)/systime=k give k (inductive "
           "step over call histories). NLS: for a bounded grammar of time-dependent polynomial/trigonometric f,g and every call "
           "history prefix (forward calls, reset, explicit/implicit reference time incl. t*=0), A,B,C,D from the real "
           "jacobian(vectorize=True) must equal the symbolic derivative of the engine's own forward terms at (x*,u*,t*), and "
           "A x*+B u*+c1 = f(x*,u*,t*), C x*+D u*+c2 = g(x*,u*,t*).")


# ------------------------------------------------------------------------------------------------ LTI / LTV
def case_lti(H, n, mdim, p, batch, has_c1, has_c2, mat_batched):
    name = 'C15/LTI/n=%d,m=%d,p=%d/batch=%s/matbatched=%s/c1=%s/c2=%s' % (n, mdim, p, batch, mat_batched, has_c1, has_c2)
    bs = (batch,) if batch else ()
    ms = bs if mat_batched else ()

    def mk(m, shape, nm, symbolic=True):
        t = torch.randn(*shape, dtype=DT)
        return t, (m.symbolic(t, nm) if symbolic else None)

    def prog(m):
        A, As = mk(m, ms + (n, n), 'A')
        B, Bs = mk(m, ms + (n, mdim), 'B')
        C, Cs = mk(m, ms + (p, n), 'C')
        D, Ds = mk(m, ms + (p, mdim), 'D')
        c1, c1s = mk(m, ms + (n,), 'c') if has_c1 else (None, None)
        c2, c2s = mk(m, ms + (p,), 'd') if has_c2 else (None, None)
        x, xs = mk(m, bs + (n,), 'x')
        u, us = mk(m, bs + (mdim,), 'u')
        sys_ = pp.module.LTI(A, B, C, D, c1, c2)
        t0 = int(sys_.systime)
        xn, y = sys_(x, u)
        return (m.full_terms(xn), m.full_terms(y), As, Bs, Cs, Ds, c1s, c2s, xs, us, int(sys_.systime) - t0, m, xn, y)

    def replay(model):
        gen = torch.Generator().manual_seed(3)
        r = lambda *s: torch.randn(*s, dtype=DT, generator=gen)
        A, B, C, D = r(*ms, n, n), r(*ms, n, mdim), r(*ms, p, n), r(*ms, p, mdim)
        c1 = r(*ms, n) if has_c1 else None
        c2 = r(*ms, p) if has_c2 else None
        x, u = r(*bs, n), r(*bs, mdim)
        try:
            xn, y = pp.module.LTI(A, B, C, D, c1, c2)(x, u)
        except Exception as e:
            return True, 'LTI forward raised %s: %s' % (type(e).__name__, str(e)[:80])
        xr = torch.einsum('...ij,...j->...i', A, x) + torch.einsum('...ij,...j->...i', B, u) + (c1 if has_c1 else 0)
        yr = torch.einsum('...ij,...j->...i', C, x) + torch.einsum('...ij,...j->...i', D, u) + (c2 if has_c2 else 0)
        e = max((xn - xr).abs().max().item(), (y - yr).abs().max().item())
        return e > 1e-9, 'LTI outputs differ from Ax+Bu+c1 / Cx+Du+c2 by %.3g' % e

    def on_raise(ctx, e):
        H.absorb(ctx)
        ok, det = replay({})
        if ok:
            H.violation('C15/LTI/raises', '%s: %s' % (name, det), {'case': name})
        else:
            H.engine_error(name, e)

    for ctx, (xn, y, As, Bs, Cs, Ds, c1s, c2s, xs, us, dt, m, xnt, yt) in run_paths(H, name, prog, raised=on_raise):
        selftest(H, ctx, m, [(xn, xnt), (y, yt)], name)
        nb = batch or 1
        goals = []
        for b in range(nb):
            mb = b if mat_batched else 0
            A = T.mat(As[mb * n * n:(mb + 1) * n * n], n, n)
            B = T.mat(Bs[mb * n * mdim:(mb + 1) * n * mdim], n, mdim)
            C = T.mat(Cs[mb * p * n:(mb + 1) * p * n], p, n)
            D = T.mat(Ds[mb * p * mdim:(mb + 1) * p * mdim], p, mdim)
            x = xs[b * n:(b + 1) * n]
            u = us[b * mdim:(b + 1) * mdim]
            xr = [a + bb for a, bb in zip(T.mv(A, x), T.mv(B, u))]
            yr = [a + bb for a, bb in zip(T.mv(C, x), T.mv(D, u))]
            if has_c1:
                xr = [a + c for a, c in zip(xr, c1s[mb * n:(mb + 1) * n])]
            if has_c2:
                yr = [a + c for a, c in zip(yr, c2s[mb * p:(mb + 1) * p])]
            goals += [l == r for l, r in zip(xn[b * n:(b + 1) * n], xr)]
            goals += [l == r for l, r in zip(y[b * p:(b + 1) * p], yr)]
        ok_len = len(xn) == nb * n and len(y) == nb * p
        H.prove(name + '/equations', [], z3.And(goals) if ok_len else z3.BoolVal(False), replay=replay, key='C15/LTI/equations')
        H.prove(name + '/time+1', [], z3.BoolVal(dt == 1), replay=lambda model: (True, 'a call advanced the system time by %d' % dt), key='C15/time')


def case_ltv(H, Tn, t0):
    """time-indexed LTV as in the documentation example; matrices symbolic, time index enumerated"""
    name = 'C15/LTV/T=%d/t0=%d' % (Tn, t0)
    n, mdim, p = 2, 1, 1

    class MyLTV(pp.module.LTV):
        def __init__(self, A, B, C, D, Tn):
            super().__init__(A, B, C, D)
            self.T = Tn

        @property
        def A(self):
            return self._A[..., self._t % self.T, :, :]

        @property
        def B(self):
            return self._B[..., self._t % self.T, :, :]

        @property
        def C(self):
            return self._C[..., self._t % self.T, :, :]

        @property
        def D(self):
            return self._D[..., self._t % self.T, :, :]

    def build(m=None, gen=None):
        r = (lambda *s: torch.randn(*s, dtype=DT, generator=gen)) if gen is not None else (lambda *s: torch.randn(*s, dtype=DT))
        return r(Tn, n, n), r(Tn, n, mdim), r(Tn, p, n), r(Tn, p, mdim), r(n), r(mdim)

    def prog(m):
        A, B, C, D, x, u = build()
        As, Bs, Cs, Ds = m.symbolic(A, 'A'), m.symbolic(B, 'B'), m.symbolic(C, 'C'), m.symbolic(D, 'D')
        xs, us = m.symbolic(x, 'x'), m.symbolic(u, 'u')
        sys_ = MyLTV(A, B, C, D, Tn).reset(t0)
        x1, y1 = sys_(x, u)
        x2, y2 = sys_(x1, u)
        return m.full_terms(x1), m.full_terms(y1), m.full_terms(x2), m.full_terms(y2), As, Bs, Cs, Ds, xs, us, int(sys_.systime)

    def replay(model):
        gen = torch.Generator().manual_seed(4)
        A, B, C, D, x, u = build(gen=gen)
        sys_ = MyLTV(A, B, C, D, Tn).reset(t0)
        x1, y1 = sys_(x, u)
        x2, y2 = sys_(x1, u)
        k0, k1 = t0 % Tn, (t0 + 1) % Tn
        r1 = A[k0] @ x + B[k0] @ u
        r2 = A[k1] @ r1 + B[k1] @ u
        e = max((x1 - r1).abs().max().item(), (x2 - r2).abs().max().item(), (y1 - (C[k0] @ x + D[k0] @ u)).abs().max().item(),
                (y2 - (C[k1] @ r1 + D[k1] @ u)).abs().max().item(), abs(int(sys_.systime) - (t0 + 2)))
        return e > 1e-9, 'LTV two-step rollout from time %d deviates by %.3g' % (t0, e)

    for ctx, (x1, y1, x2, y2, As, Bs, Cs, Ds, xs, us, tend) in run_paths(H, name, prog):
        def at(S, k, r, c):
            return T.mat(S[k * r * c:(k + 1) * r * c], r, c)
        k0, k1 = t0 % Tn, (t0 + 1) % Tn
        r1 = [a + b for a, b in zip(T.mv(at(As, k0, n, n), xs), T.mv(at(Bs, k0, n, mdim), us))]
        o1 = [a + b for a, b in zip(T.mv(at(Cs, k0, p, n), xs), T.mv(at(Ds, k0, p, mdim), us))]
        r2 = [a + b for a, b in zip(T.mv(at(As, k1, n, n), r1), T.mv(at(Bs, k1, n, mdim), us))]
        o2 = [a + b for a, b in zip(T.mv(at(Cs, k1, p, n), r1), T.mv(at(Ds, k1, p, mdim), us))]
        g = [l == r for l, r in zip(x1 + y1 + x2 + y2, r1 + o1 + r2 + o2)]
        H.prove(name + '/two-step-equations', [], z3.And(g), replay=replay, key='C15/LTV/equations')
        H.prove(name + '/time', [], z3.BoolVal(tend == t0 + 2), replay=replay, key='C15/time')


extra_time = {}


def case_time_symbolic(H):
    """system time as a symbolic integer: one call from an arbitrary time t gives t+1; reset(k) and systime=k give k"""
    name = 'C15/time/inductive-step'

    def prog(m):
        A = torch.eye(2, dtype=DT)
        sys_ = pp.module.LTI(A, A[:, :1].clone(), A, A[:, :1].clone())
        tv = m.symbolic(sys_._t, ['t'], sort='int')
        x, u = torch.zeros(2, dtype=DT), torch.zeros(1, dtype=DT)
        sys_(x, u)
        t1 = m.full_terms(sys_.systime)[0]
        sys_(x, u)
        t2 = m.full_terms(sys_.systime)[0]
        k = torch.tensor(5)
        kv = m.symbolic(k, ['k'], sort='int')
        sys_.systime = k
        t3 = m.full_terms(sys_.systime)[0]
        sys_(x, u)
        t4 = m.full_terms(sys_.systime)[0]
        k_after = m.full_terms(k)[0]            # the caller's tensor is a value, not the clock: a call must not advance it
        other = pp.module.LTI(A, A[:, :1].clone(), A, A[:, :1].clone())
        other.systime = sys_.systime            # copies the time of one system to another (int64 tensor, same device)
        o1 = m.full_terms(other.systime)[0]
        sys_(x, u)
        o2 = m.full_terms(other.systime)[0]     # advancing the first system must not advance the second
        t4b = m.full_terms(sys_.systime)[0]
        other(x, u)
        t4c = m.full_terms(sys_.systime)[0]
        o3 = m.full_terms(other.systime)[0]
        extra_time.clear()
        extra_time.update(k_after=k_after, o1=o1, o2=o2, o3=o3, t4b=t4b, t4c=t4c)
        sys_.reset(7)
        t5 = m.full_terms(sys_.systime)[0]
        sys_.reset()
        t6 = m.full_terms(sys_.systime)[0]
        return tv[0], kv[0], t1, t2, t3, t4, t5, t6

    def replay_alias(model):
        A = torch.eye(2, dtype=DT)
        a = pp.module.LTI(A, A[:, :1].clone(), A, A[:, :1].clone())
        b = pp.module.LTI(A, A[:, :1].clone(), A, A[:, :1].clone())
        x, u = torch.zeros(2, dtype=DT), torch.zeros(1, dtype=DT)
        k = torch.tensor(int(model.get('k', 5)))
        k0 = int(k)
        a.systime = k
        a(x, u)
        r1 = (int(k), int(a.systime))
        b.systime = a.systime
        a(x, u)
        r2 = (int(a.systime), int(b.systime))
        b(x, u)
        r3 = (int(a.systime), int(b.systime))
        bad = r1 != (k0, k0 + 1) or r2 != (k0 + 2, k0 + 1) or r3 != (k0 + 2, k0 + 2)
        return bad, ('a.systime = k (tensor %d); a(); -> (k, a.systime) = %s; b.systime = a.systime; a() -> (a, b) = %s; b() -> (a, b) = %s'
                     % (k0, r1, r2, r3))

    def replay(model):
        A = torch.eye(2, dtype=DT)
        s = pp.module.LTI(A, A[:, :1].clone(), A, A[:, :1].clone())
        t = int(model.get('t', 3))
        s.reset(t)
        x, u = torch.zeros(2, dtype=DT), torch.zeros(1, dtype=DT)
        s(x, u)
        a = int(s.systime)
        s.systime = torch.tensor(int(model.get('k', 5)))
        b = int(s.systime)
        s(x, u)
        c = int(s.systime)
        s.reset(7)
        d = int(s.systime)
        s.reset()
        e = int(s.systime)
        bad = (a != t + 1) or (b != int(model.get('k', 5))) or (c != b + 1) or d != 7 or e != 0
        return bad, 'times after call/assign/call/reset(7)/reset(): %s' % [a, b, c, d, e]

    for ctx, (t, k, t1, t2, t3, t4, t5, t6) in run_paths(H, name, prog):
        R = z3.ToReal
        tr = lambda x: x if not z3.is_int(x) else z3.ToReal(x)
        H.prove(name + '/call:t->t+1', [], z3.And(tr(t1) == tr(t) + 1, tr(t2) == tr(t) + 2), replay=replay, key='C15/time')
        H.prove(name + '/assign:systime=k', [], tr(t3) == tr(k), replay=replay, key='C15/time')
        H.prove(name + '/call-after-assign', [], tr(t4) == tr(k) + 1, replay=replay, key='C15/time')
        e = extra_time
        H.prove(name + '/assigned-tensor-is-not-aliased', [], tr(e['k_after']) == tr(k), replay=replay_alias, key='C15/time')
        H.prove(name + '/systems-keep-separate-clocks', [], z3.And(tr(e['o1']) == tr(k) + 1, tr(e['o2']) == tr(k) + 1, tr(e['t4b']) == tr(k) + 2,
                                                                 tr(e['o3']) == tr(k) + 2, tr(e['t4c']) == tr(k) + 2), replay=replay_alias, key='C15/time')
        H.prove(name + '/reset(7)', [], tr(t5) == 7, replay=replay, key='C15/time')
        H.prove(name + '/reset()', [], tr(t6) == 0, replay=replay, key='C15/time')


# ------------------------------------------------------------------------------------------------ NLS
def nls_models():
    """bounded grammar of smooth time-dependent systems: (name, f, g, n, m)"""
    def f1(x, u, t):
        t = t.to(x.dtype).reshape(-1)[0]
        return x.cos() * (1 + 0.1 * t) + u * t

    def g1(x, u, t):
        return x.sin() + u

    def f2(x, u, t):
        t = t.to(x.dtype).reshape(-1)[0]
        return torch.stack([x[..., 0] * x[..., 1] + u[..., 0] * t, x[..., 1] * x[..., 1] - x[..., 0] + t * t * 0.5], -1)

    def g2(x, u, t):
        t = t.to(x.dtype).reshape(-1)[0]
        return torch.stack([x[..., 0] * u[..., 0] + t, x[..., 1] * x[..., 1] * x[..., 0]], -1)

    def f3(x, u, t):
        t = t.to(x.dtype).reshape(-1)[0]
        return torch.stack([x[..., 0].sin() * x[..., 1] + (0.3 * t).cos() * u[..., 0], x[..., 1] + u[..., 1] * x[..., 0] * t], -1)

    def g3(x, u, t):
        t = t.to(x.dtype).reshape(-1)[0]
        return torch.stack([x[..., 0] + x[..., 1] * t], -1)

    def f4(x, u, t):
        return x * x * x - 2 * x + u

    def g4(x, u, t):
        t = t.to(x.dtype).reshape(-1)[0]
        return (x * u).cos() + t * x
    return [('cos-affine-in-t', f1, g1, 2, 2), ('poly', f2, g2, 2, 1), ('trig-mixed', f3, g3, 2, 2), ('cubic', f4, g4, 2, 2)]


def case_nls(H, mname, f, g, n, mdim, history, tref, post=0, noarg=False):
    """history: list of ('call',) / ('reset', k) ; tref: None (use systime) or int or 'tensor0';
    post: number of further calls of the system AFTER set_refpoint and before A..D, c1, c2 are read (the reference point was set, it must stay)"""
    name = 'C15/NLS/%s/history=%s/tref=%s' % (mname, history, tref) + ('/calls-after-set_refpoint=%d' % post if post else '')
    if noarg:
        # an earlier reference point is set and read, the system is called at (x, u), then set_refpoint() WITHOUT arguments:
        # "the most recent state / input / time" - the matrices must be those of the new point
        name += '/argument-less-set_refpoint-after-an-earlier-one'

    def set_ref(sys_, x, u, targ, tstar):
        if not noarg:
            sys_.set_refpoint(state=x, input=u, t=targ)
            return tstar
        sys_.set_refpoint(state=torch.tensor([0.1, 0.9][:n], dtype=DT), input=torch.tensor([-0.3, 0.6][:mdim], dtype=DT), t=torch.tensor(0))
        for nm in ('A', 'B', 'C', 'D', 'c1', 'c2'):
            getattr(sys_, nm)
        tnow = int(sys_.systime)
        sys_(x, u)
        sys_.set_refpoint()
        return tnow + 1

    def run_post(sys_):
        for _ in range(post):
            sys_(torch.full((n,), 0.3, dtype=DT), torch.full((mdim,), -0.2, dtype=DT))

    class Sys(pp.module.NLS):
        def state_transition(self, state, input, t=None):
            return f(state, input, t)

        def observation(self, state, input, t=None):
            return g(state, input, t)

    again = []

    def run_history(sys_):
        t = 0
        for h in history:
            if h[0] == 'call':
                sys_(torch.full((n,), 0.3, dtype=DT), torch.full((mdim,), -0.2, dtype=DT))
                t += 1
            elif h[0] == 'reset':
                sys_.reset(h[1])
                t = h[1]
        return t

    def tval(tnow):
        if tref is None:
            return tnow, None
        if tref == 'tensor0':
            return 0, torch.tensor(0)
        if tref == 'tensor[0]':
            return 0, torch.tensor([0])
        return tref, torch.tensor(tref)

    def prog(m):
        sys_ = Sys()
        tnow = run_history(sys_)
        tstar, targ = tval(tnow)
        x = torch.tensor([0.4, -0.7][:n], dtype=DT)
        u = torch.tensor([0.2, 0.5][:mdim], dtype=DT)
        xs, us = m.symbolic(x, 'x'), m.symbolic(u, 'u')
        tstar = set_ref(sys_, x, u, targ, tstar)
        run_post(sys_)
        A, B, C, D = sys_.A, sys_.B, sys_.C, sys_.D
        c1, c2 = sys_.c1, sys_.c2
        again.clear()
        again.extend([m.full_terms(sys_.c1), m.full_terms(sys_.c2), m.full_terms(sys_.A), m.full_terms(sys_.c1)])     # properties are pure: reading twice
        # oracle forward terms at (x*, u*, t*): the same user functions evaluated by the engine on fresh symbolic copies
        x2, u2 = x.clone().detach(), u.clone().detach()
        m.set_terms(x2, xs)
        m.set_terms(u2, us)
        tt = torch.tensor(tstar)
        fv = f(x2, u2, tt)
        gv = g(x2, u2, tt)
        return ([m.full_terms(t_) for t_ in (A, B, C, D, c1, c2)], m.full_terms(fv), m.full_terms(gv), xs, us, m, (A, B, C, D, c1, c2))

    def replay(model):
        sys_ = Sys()
        tnow = run_history(sys_)
        tstar, targ = tval(tnow)
        x = tensor_from_env(['x%d' % i for i in range(n)], model)
        u = tensor_from_env(['u%d' % i for i in range(mdim)], model)
        tstar = set_ref(sys_, x, u, targ, tstar)
        run_post(sys_)
        tt = torch.tensor(tstar)
        Ar = torch.autograd.functional.jacobian(lambda z: f(z, u, tt), x)
        Br = torch.autograd.functional.jacobian(lambda z: f(x, z, tt), u)
        Cr = torch.autograd.functional.jacobian(lambda z: g(z, u, tt), x)
        Dr = torch.autograd.functional.jacobian(lambda z: g(x, z, tt), u)
        c1a, c2a = sys_.c1.clone(), sys_.c2.clone()
        c1b, c2b = sys_.c1.clone(), sys_.c2.clone()
        if (c1a - c1b).abs().max().item() > 1e-12 or (c2a - c2b).abs().max().item() > 1e-12:
            return True, 'reading c1 / c2 a second time after one set_refpoint gives different values (|dc1| = %.3g, |dc2| = %.3g)' % (
                (c1a - c1b).abs().max().item(), (c2a - c2b).abs().max().item())
        e = max((sys_.A - Ar).abs().max().item(), (sys_.B - Br).abs().max().item(), (sys_.C - Cr).abs().max().item(),
                (sys_.D - Dr).abs().max().item(),
                (sys_.A @ x + sys_.B @ u + sys_.c1 - f(x, u, tt)).abs().max().item(),
                (sys_.C @ x + sys_.D @ u + sys_.c2 - g(x, u, tt)).abs().max().item())
        return e > 1e-8, 'linearisation at (x*,u*,t*=%s) after history %s%s deviates by %.3g' % (tstar, history, ' and %d call(s) after set_refpoint' % post if post else '', e)

    for ctx, (mats, fv, gv, xs, us, m, tens) in run_paths(H, name, prog):
        selftest(H, ctx, m, list(zip(mats, tens)), name)
        hyp = H.hyps_of(ctx)
        At, Bt, Ct, Dt, c1t, c2t = mats
        no = len(gv)
        dA = [diff(fv[i], xs[j], ctx.tfvar, ctx) for i in range(n) for j in range(n)]
        dB = [diff(fv[i], us[j], ctx.tfvar, ctx) for i in range(n) for j in range(mdim)]
        dC = [diff(gv[i], xs[j], ctx.tfvar, ctx) for i in range(no) for j in range(n)]
        dD = [diff(gv[i], us[j], ctx.tfvar, ctx) for i in range(no) for j in range(mdim)]
        hyp = H.hyps_of(ctx)
        for nm, got, want in (('A', At, dA), ('B', Bt, dB), ('C', Ct, dC), ('D', Dt, dD)):
            ok = len(got) == len(want)
            H.prove('%s/%s==d/d' % (name, nm), hyp, z3.And([a == b for a, b in zip(got, want)]) if ok else z3.BoolVal(False), replay=replay,
                    key='C15/NLS/jacobians')
        A, B = T.mat(At, n, n), T.mat(Bt, n, mdim)
        C, D = T.mat(Ct, no, n), T.mat(Dt, no, mdim)
        aff_f = [a + b + c for a, b, c in zip(T.mv(A, xs), T.mv(B, us), c1t)]
        aff_g = [a + b + c for a, b, c in zip(T.mv(C, xs), T.mv(D, us), c2t)]
        for lab, first, second in (('c1', c1t, again[0]), ('c2', c2t, again[1]), ('A', At, again[2]), ('c1 (third read)', c1t, again[3])):
            for i, (l, r) in enumerate(zip(first, second)):
                H.same('%s/%s-read-twice[%d]' % (name, lab, i), hyp, l, r, ctx, replay=replay, key='C15/NLS/affine')
        H.prove(name + '/affine-model-exact-at-refpoint', hyp, z3.And([a == b for a, b in zip(aff_f + aff_g, fv + gv)]), replay=replay,
                key='C15/NLS/affine')


def case_custom_forward(H):
    """a system whose subclass redefines forward() without calling the base method (the documented way to inject noise) and is
    invoked as system(x, u): every call must still advance the system time by exactly one, so a time-dependent transition sees t = 0, 1, 2"""
    name = 'C15/custom-forward/time-advances'

    class Noisy(pp.module.NLS):
        def state_transition(self, state, input, t=None):
            return state + t * input

        def observation(self, state, input, t=None):
            return state * 1.0

        def forward(self, state, input):
            return self.state_transition(state, input, self.systime) + 0.0, self.observation(state, input, self.systime)

    def run_real(x, u):
        sys_ = Noisy()
        outs = []
        for k in range(3):
            outs.append(sys_(x, u)[0])
        return outs, int(sys_.systime)

    def prog(m):
        x, u = torch.tensor([0.4, -0.7], dtype=DT), torch.tensor([0.2, 0.5], dtype=DT)
        xs, us = m.symbolic(x, 'x'), m.symbolic(u, 'u')
        outs, tnow = run_real(x, u)
        return [m.full_terms(o) for o in outs], tnow, xs, us

    def replay(model):
        x = tensor_from_env(['x0', 'x1'], model) if model else torch.tensor([0.4, -0.7], dtype=DT)
        u = tensor_from_env(['u0', 'u1'], model) if model else torch.tensor([0.2, 0.5], dtype=DT)
        if float(u.abs().sum()) == 0:
            u = torch.tensor([0.2, 0.5], dtype=DT)
        outs, tnow = run_real(x, u)
        e = max((outs[k] - (x + k * u)).abs().max().item() for k in range(3))
        return e > 1e-12 or tnow != 3, 'custom forward(): call k saw time %s (systime after 3 calls: %d), outputs deviate by %.3g' % ('!= k' if e > 1e-12 else 'k', tnow, e)

    for ctx, (outs, tnow, xs, us) in run_paths(H, name, prog):
        H.prove(name + '/systime==3', [], z3.BoolVal(tnow == 3), replay=replay, key='C15/clock')
        for k in range(3):
            for i in range(2):
                H.same('%s/call%d/output[%d]' % (name, k, i), H.hyps_of(ctx), outs[k][i], xs[i] + k * us[i], ctx, replay=replay, key='C15/clock')


def run(H):
    H.assumptions += ['exact real arithmetic', 'time indices of LTV matrices enumerated (concrete), values symbolic']
    H.bounds += ['LTI: n<=2, m<=2, p<=2, batch in {none, 2}, all 4 presence patterns of c1/c2',
                 'LTV: period T<=3, start time 0..T (two consecutive calls)', 'NLS: 4 model programs x call histories of length <=3 x reference times; c1/c2/A read repeatedly after one set_refpoint; further calls of the system between set_refpoint and the read', 'a subclass overriding forward() invoked through __call__ (3 calls)']
    for (n, mdim, p) in ([(2, 1, 2)] if H.quick else [(2, 1, 2), (1, 1, 1), (2, 2, 1)]):
        for batch, mb in ((0, False), (2, False), (2, True)):
            for c1, c2 in itertools.product((False, True), repeat=2):
                try:
                    case_lti(H, n, mdim, p, batch, c1, c2, mb)
                except Exception as e:
                    H.engine_error('lti', e)
    for Tn in ((2, 3) if H.quick else (1, 2, 3, 4)):
        for t0 in range(0, Tn + 1):
            try:
                case_ltv(H, Tn, t0)
            except Exception as e:
                import traceback; traceback.print_exc()
                H.engine_error('ltv', e)
    try:
        case_time_symbolic(H)
    except Exception as e:
        import traceback; traceback.print_exc()
        H.engine_error('time', e)
    try:
        case_custom_forward(H)
    except Exception as e:
        import traceback; traceback.print_exc()
        H.engine_error('custom-forward', e)
    hists = [[], [('call',)], [('call',), ('call',)], [('reset', 3)], [('call',), ('reset', 2), ('call',)]]
    trefs = [None, 'tensor0', 2]
    if not H.quick:
        trefs += ['tensor[0]', 5]
        hists += [[('call',), ('call',), ('call',)], [('reset', 4), ('call',)]]
    for mname, f, g, n, mdim in nls_models():
        for hi, history in enumerate(hists):
            for tref in trefs:
                if H.quick and (hi + trefs.index(tref)) % 2 == 1 and mname != 'cos-affine-in-t':
                    continue
                try:
                    case_nls(H, mname, f, g, n, mdim, history, tref)
                except Exception as e:
                    import traceback; traceback.print_exc()
                    H.engine_error('nls/' + mname, e)
    for mname, f, g, n, mdim in nls_models()[:(2 if H.quick else 4)]:
        for history, tref, post in (([('call',)], None, 1), ([], 2, 2), ([('call',)], None, -1)) + (() if H.quick else (([('reset', 3)], None, 2), ([('call',)], 'tensor0', 1), ([], None, -1))):
            try:
                case_nls(H, mname, f, g, n, mdim, history, tref, post=max(post, 0), noarg=(post < 0))
            except Exception as e:
                import traceback; traceback.print_exc()
                H.engine_error('nls-post/' + mname, e)
    return H.finish(explanation=EXPLAIN)
