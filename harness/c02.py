"""C02 - Log is the principal inverse of Exp on all four groups."""
import torch
import z3

import pypose as pp
from symx import terms as T
from symx.engine import PI, rat
from .common import *

EXPLAIN = ("Log, Exp(Log(X)), Log(Exp(x)), Log(-q), Log(Inv X) run under symx with symbolic valid group elements / algebra vectors; the three "
           "regimes of the quaternion logarithm and the small-angle branches of Exp are split into paths by decision. Obligations: the "
           "rotation part of Log(X) has norm <= pi; Exp(Log X) has the same rotation matrix, translation and scale as X; Log(-q) = Log(q) and "
           "Log(Inv X) = -Log(X) away from angle pi; Log(Exp x) = x for |phi| < pi (rotation part directly, translation part with the proven "
           "rotation part as hypothesis). The transcendental functions are abstraction variables with sound axioms (Pythagoras, "
           "double angle, sin(atan u) = u cos(atan u), enclosures), so unsat is a guarantee for the real functions; obligations the solver does "
           "not settle within the caps are reported inconclusive.")

EPS = rat(torch.finfo(DT).eps)


def no_downcast(H, ctx, name, key, g):
    """float64 data must not be pushed through a lower-precision cast inside the library (invisible over the reals; recorded by the engine)"""
    dc = getattr(ctx, 'downcasts', [])

    def replay(model):
        # float64 round trip on generic elements: a single-precision detour shows as a 1e-7 relative deviation
        torch.manual_seed(3)
        X = RANDN[g](8, dtype=DT)
        Y = X.Log().Exp()
        e = ((X.matrix() - Y.matrix()).abs().amax(dim=(-1, -2)) / X.matrix().abs().amax(dim=(-1, -2))).max().item()
        return e > 1e-10, 'float64 Exp(Log X) deviates from X by %.3g (relative): precision-reducing cast %s' % (e, dc[:2])
    H.prove(name + '/no-precision-reducing-cast', [], z3.BoolVal(not dc), replay=replay, key=key)


def case_log_basic(H, g):
    """|rotation part of Log X| <= pi ; Log(-q) == Log(q) ; Log(Inv X) == -Log X   (generic regime: |v|, |w| > eps)"""
    name = 'C02/%s/Log' % g
    qi = {'SO3': 0, 'SE3': 3, 'RxSO3': 0, 'Sim3': 3}[g]
    pi_ = {'SO3': 0, 'SE3': 3, 'RxSO3': 0, 'Sim3': 3}[g]     # start of phi in the algebra vector

    def prog(m):
        X, xs = sym_group(m, g, 'x', 90)
        t, q, s = parts(g, xs)
        if s is not None:
            m.ctx.assume += [s >= z3.RealVal('1/3000'), s <= 3000]
        nt = list(xs)
        for k in range(qi, qi + 4):
            nt[k] = -xs[k]
        Xn = pp.LieTensor(torch.cat([X.tensor()[:qi], -X.tensor()[qi:qi + 4], X.tensor()[qi + 4:]]).detach().clone(), ltype=GTYPE[g])
        m.set_terms(Xn.tensor(), nt)
        L = X.Log()
        Ln = Xn.Log()
        Li = X.Inv().Log()
        return m.full_terms(L.tensor()), m.full_terms(Ln.tensor()), m.full_terms(Li.tensor()), m.poisons(L.tensor()), xs, m, L

    def replay(model):
        xv = normalize_group(g, tensor_from_env(['x%d' % i for i in range(GDIM[g])], model))
        X = pp.LieTensor(xv, ltype=GTYPE[g])
        L = X.Log().tensor()
        xn = xv.clone()
        xn[qi:qi + 4] = -xn[qi:qi + 4]
        Ln = pp.LieTensor(xn, ltype=GTYPE[g]).Log().tensor()
        Li = X.Inv().Log().tensor()
        ang = L[pi_:pi_ + 3].norm().item()
        w = xv[qi + 3].abs().item()
        bad = ang > 3.14159265358979 + 1e-9 or not torch.isfinite(L).all()
        msg = '|phi| = %.6g' % ang
        if w > 1e-3:
            sc = 1 + L.abs().max().item()          # relative to the magnitude of Log(X) (translations are unbounded)
            e1 = (L - Ln).abs().max().item() / sc
            e2 = (L + Li).abs().max().item() / sc
            bad = bad or e1 > 1e-7 or e2 > 1e-7
            msg += ', |Log(q)-Log(-q)| = %.3g, |Log(X)+Log(Inv X)| = %.3g' % (e1, e2)
        return bad, msg + ' at X=%s' % xv.tolist()

    for ctx, (L, Ln, Li, pL, xs, m, Lt) in run_paths(H, name, prog, max_paths=32, max_decisions=30, track_poison=True, ctx_opts={'split_bool_casts': True}):
        selftest(H, ctx, m, [(L, Lt.tensor())], name)
        pn = H.paths
        no_downcast(H, ctx, '%s/path%d' % (name, pn), 'C02/%s/Log' % g, g)
        hyp = H.hyps_of(ctx)
        t, q, s = parts(g, xs)
        ph = L[pi_:pi_ + 3]
        to = 20 if H.quick else 150
        key = 'C02/%s/Log' % g
        # principal value: |phi|^2 <= pi^2
        H.prove('%s/path%d/|phi|<=pi' % (name, pn), hyp, T.dot(ph, ph) <= PI * PI, replay=replay, key=key, timeout=to)
        away = [z3.Or(q[3] > z3.RealVal('1/1000'), q[3] < -z3.RealVal('1/1000'))]
        fams = quat_log_families(ctx)
        if g != 'SO3' and len(fams) >= 2 and all(f['half'] is not None for f in fams) and H.path_infeasible('%s/path%d' % (name, pn), hyp):
            continue
        if g != 'SO3' and len(fams) >= 2 and all(f['half'] is not None for f in fams):
            # generic branch of all three logarithms (X, negated quaternion, inverse): per hemisphere, the lemma chain of every family and
            # then rational certificates modulo the lemma conclusions
            for sign, tag in ((1, 'w>0'), (-1, 'w<0')):
                case, lem = quat_log_lemmas(ctx, sign)
                hy, lobs, _tab = H.chain('%s/path%d/%s' % (name, pn, tag), hyp + case, lem, replay=replay, key=key, timeout=2 * to)
                rels, elim = quat_log_relations(ctx, sign)
                for i in range(ADIM[g]):
                    H.certify('%s/path%d/%s/Log(-q)==Log(q)[%d]' % (name, pn, tag, i), L[i], Ln[i], rels, hyps=hy, depends=lobs, elim=elim, replay=replay,
                              key=key, timeout=3 * to)
                    H.certify('%s/path%d/%s/Log(Inv X)==-Log(X)[%d]' % (name, pn, tag, i), Li[i], -L[i], rels, hyps=hy, depends=lobs, elim=elim, replay=replay,
                              key=key, timeout=3 * to)
                H.reach('%s/path%d/%s/reach' % (name, pn, tag), hyp + case)
        for i in ([] if (g != 'SO3' and len(fams) >= 2 and all(f['half'] is not None for f in fams)) else range(ADIM[g])):
            d1, d2 = L[i] - Ln[i], L[i] + Li[i]
            H.prove('%s/path%d/Log(-q)==Log(q)[%d]' % (name, pn, i), hyp + away, L[i] == Ln[i], replay=replay, key=key, timeout=to,
                    neg_margin=z3.Or(d1 > z3.RealVal('1/1000'), d1 < -z3.RealVal('1/1000')))
            H.prove('%s/path%d/Log(Inv X)==-Log(X)[%d]' % (name, pn, i), hyp + away, Li[i] == -L[i], replay=replay, key=key, timeout=to,
                    neg_margin=z3.Or(d2 > z3.RealVal('1/1000'), d2 < -z3.RealVal('1/1000')))
        ps = [p for p in pL if p is not None]
        if ps:
            H.prove('%s/path%d/finite' % (name, pn), hyp, z3.Not(z3.Or(ps)), replay=replay, key=key, timeout=to)
        if pn % 3 == 0:
            H.reach('%s/path%d/reach' % (name, pn), hyp)


def case_log_light(H, g):
    """Log alone (quick tier for Sim3, whose full case is thorough-only): principal value and no precision-reducing cast"""
    name = 'C02/%s/Log(light)' % g
    pi_ = {'SO3': 0, 'SE3': 3, 'RxSO3': 0, 'Sim3': 3}[g]

    def prog(m):
        X, xs = sym_group(m, g, 'x', 90)
        t, q, s = parts(g, xs)
        if s is not None:
            m.ctx.assume += [s >= z3.RealVal('1/3000'), s <= 3000]
        return m.full_terms(X.Log().tensor()), xs

    def replay(model):
        xv = normalize_group(g, tensor_from_env(['x%d' % i for i in range(GDIM[g])], model))
        L = pp.LieTensor(xv, ltype=GTYPE[g]).Log().tensor()
        ang = L[pi_:pi_ + 3].norm().item()
        return ang > 3.14159265358979 + 1e-9 or not torch.isfinite(L).all(), '|phi| = %.6g at X=%s' % (ang, xv.tolist())

    for ctx, (L, xs) in run_paths(H, name, prog, max_paths=32, max_decisions=40, ctx_opts={'split_bool_casts': True}):
        pn = H.paths
        no_downcast(H, ctx, '%s/path%d' % (name, pn), 'C02/%s/Log' % g, g)
        ph = L[pi_:pi_ + 3]
        H.prove('%s/path%d/|phi|<=pi' % (name, pn), H.hyps_of(ctx), T.dot(ph, ph) <= PI * PI, replay=replay, key='C02/%s/Log' % g, timeout=15)


def case_exp_log(H, g):
    """Exp(Log X) is the same transformation as X"""
    name = 'C02/%s/Exp(Log(X))' % g
    qi = {'SO3': 0, 'SE3': 3, 'RxSO3': 0, 'Sim3': 3}[g]

    def prog(m):
        X, xs = sym_group(m, g, 'x', 91)
        t, q, s = parts(g, xs)
        if s is not None:
            m.ctx.assume += [s >= z3.RealVal('1/3000'), s <= 3000]
        Y = X.Log().Exp()
        return m.full_terms(Y.tensor()), xs, m, Y

    def replay(model):
        xv = normalize_group(g, tensor_from_env(['x%d' % i for i in range(GDIM[g])], model))
        X = pp.LieTensor(xv, ltype=GTYPE[g])
        Y = X.Log().Exp()
        e = (X.matrix() - Y.matrix()).abs().max().item() / (1 + X.matrix().abs().max().item())
        # "with the accuracy stated in C01": rotation / scale blocks to a small multiple of eps (64 eps allowed here); the translation
        # block to 100 sqrt(eps)
        Mx, My = X.matrix(), Y.matrix()
        sz = 3
        eR = (Mx[:sz, :sz] - My[:sz, :sz]).abs().max().item() / Mx[:sz, :sz].abs().max().item()
        bad = eR > 64 * 2.3e-16
        msg = 'rotation/scale block of Exp(Log X) differs from X by %.3g (relative; allowed 64 eps)' % eR
        if Mx.shape[0] == 4:
            tn = Mx[:3, 3].norm().item()
            eT = (Mx[:3, 3] - My[:3, 3]).norm().item() / tn if tn > 0 else 0.0
            if eT > 100 * 1.5e-8:
                bad, msg = True, 'translation of Exp(Log X) differs from X by %.3g (relative; allowed 100 sqrt(eps))' % eT
        return bad, '%s at X=%s' % (msg, xv.tolist())

    for ctx, (y, xs, m, Y) in run_paths(H, name, prog, max_paths=48, max_decisions=40, ctx_opts={'split_bool_casts': True}):
        selftest(H, ctx, m, [(y, Y.tensor())], name)
        pn = H.paths
        no_downcast(H, ctx, '%s/path%d' % (name, pn), 'C02/%s/Exp(Log)' % g, g)
        hyp = H.hyps_of(ctx)
        t, q, s = parts(g, xs)
        ty, qy, sy = parts(g, y)
        to = 20 if H.quick else 150
        key = 'C02/%s/Exp(Log)' % g
        from .jac import small_regime_deep as small_regime
        small = small_regime(ctx)
        tol = z3.RealVal('1/100000000000000')
        Ry, Rx = T.flat(T.quat_rot(qy)), T.flat(T.quat_rot(q))
        pairs = [('rotation[%d]' % i, Ry[i], Rx[i]) for i in range(9)]
        if t is not None:
            pairs += [('translation[%d]' % i, ty[i], t[i]) for i in range(3)]
        if s is not None:
            pairs += [('scale', sy, s)]
        staged = (not small) and quat_log_families(ctx)
        if H.quick and g != 'SO3' and not staged:
            continue          # small-angle / near-pi branches of the larger groups: thorough tier (SO3 covers them in quick)
        if staged and H.path_infeasible('%s/path%d' % (name, pn), hyp):
            continue
        if staged:
            # generic branch of the quaternion logarithm: staged proof per hemisphere.  Lemmas (each proved, in order):
            # |phi| = 2|atan(|v|/w)|, sin(|phi|/2) = |v|, cos(|phi|/2) = |w| (and the full-angle pair); then the goals.
            for sign, tag in ((1, 'w>0'), (-1, 'w<0')):
                case, lem = quat_log_lemmas(ctx, sign)
                hy, lobs, _tab = H.chain('%s/path%d/%s' % (name, pn, tag), hyp + case, lem, replay=replay, key=key, timeout=2 * to)
                rels, elim = quat_log_relations(ctx, sign)
                for nm, l, r in pairs:
                    d = l - r
                    if True:
                        # a rational identity modulo the lemma conclusions (certificate; the lemma equalities eliminate the abstraction
                        # variables of the half and full angle; without certificate the direct query is the fall-back)
                        H.certify('%s/path%d/%s/%s' % (name, pn, tag, nm), l, r, rels, hyps=hy, depends=lobs, elim=elim, replay=replay, key=key,
                                  timeout=3 * to)
                H.reach('%s/path%d/%s/reach' % (name, pn, tag), hyp + case)
            continue
        for nm, l, r in pairs:
            d = l - r
            if small:
                H.prove('%s/path%d/%s/small-regime' % (name, pn, nm), hyp, z3.And(d <= tol * (1 + r * r), d >= -tol * (1 + r * r)), replay=replay, key=key, timeout=to)
            else:
                H.prove('%s/path%d/%s' % (name, pn, nm), hyp, l == r, replay=replay, key=key, timeout=to,
                        neg_margin=z3.Or(d > z3.RealVal('1/1000'), d < -z3.RealVal('1/1000')))


def case_log_exp(H, g):
    """Log(Exp(x)) == x for |phi| < pi"""
    name = 'C02/%s/Log(Exp(x))' % ALG[g]
    pi_ = {'SO3': 0, 'SE3': 3, 'RxSO3': 0, 'Sim3': 3}[g]

    def prog(m):
        a = rand_alg(g, 92, sigma=0.7)
        as_ = m.symbolic(a, 'a')
        ta, ph, sg = aparts(g, as_)
        m.ctx.assume += [T.dot(ph, ph) < PI * PI]
        if sg is not None:
            m.ctx.assume += [sg >= -8, sg <= 8]
        Y = pp.LieTensor(a, ltype=ATYPE[g]).Exp().Log()
        return m.full_terms(Y.tensor()), as_, m, Y

    def replay(model):
        av = tensor_from_env(['a%d' % i for i in range(ADIM[g])], model)
        if av[pi_:pi_ + 3].norm().item() >= 3.1415926:
            return False, 'outside |phi| < pi'
        Y = pp.LieTensor(av, ltype=ATYPE[g]).Exp().Log().tensor()
        e = (Y - av).abs().max().item() / (1 + av.abs().max().item())
        return e > 1e-6, 'Log(Exp(x)) differs from x by %.3g at x=%s' % (e, av.tolist())

    for ctx, (y, as_, m, Y) in run_paths(H, name, prog, max_paths=48, max_decisions=40, ctx_opts={'split_bool_casts': True}):
        selftest(H, ctx, m, [(y, Y.tensor())], name)
        pn = H.paths
        hyp = H.hyps_of(ctx)
        ta, ph, sg = aparts(g, as_)
        to = 20 if H.quick else 150
        key = 'C02/%s/Log(Exp)' % g
        from .jac import small_regime_deep as small_regime
        small = small_regime(ctx)
        tol = z3.RealVal('1/100000000000000')
        rot = []
        for i in range(pi_, pi_ + 3):
            d = y[i] - as_[i]
            if small:
                rot.append(H.prove('%s/path%d/phi[%d]/small-regime' % (name, pn, i), hyp, z3.And(d <= tol, d >= -tol), replay=replay, key=key, timeout=to))
            else:
                rot.append(H.prove('%s/path%d/phi[%d]' % (name, pn, i), hyp, y[i] == as_[i], replay=replay, key=key, timeout=to,
                                   neg_margin=z3.Or(d > z3.RealVal('1/1000'), d < -z3.RealVal('1/1000'))))
        if sg is not None:
            H.prove('%s/path%d/sigma' % (name, pn), hyp, y[ADIM[g] - 1] == sg, replay=replay, key=key, timeout=to)
        if ta is not None and not small:
            # staged: with the rotation part proven, the translation part is Jl_inv(phi) Jl(phi) tau = tau
            hyp2 = hyp + [y[i] == as_[i] for i in range(pi_, pi_ + 3)]
            for i in range(3):
                d = y[i] - ta[i]
                H.prove('%s/path%d/tau[%d]' % (name, pn, i), hyp2, y[i] == ta[i], replay=replay, key=key, timeout=to, depends=rot,
                        neg_margin=z3.Or(d > z3.RealVal('1/1000'), d < -z3.RealVal('1/1000')))
        if pn % 3 == 0:
            H.reach('%s/path%d/reach' % (name, pn), hyp)


def run(H):
    H.assumptions += ['exact real arithmetic (the abstraction of transcendental functions is sound: unsat holds for the real functions)',
                      'valid group inputs; scale in [1/3000, 3000]; |sigma| <= 8']
    H.bounds += ['single items', 'quick: SO3 for all clauses, SE3/RxSO3 for Log basics and the generic branch of Exp(Log X); thorough: all four groups, all branches']
    only = getattr(H, 'only', None)
    groups_basic = ['SO3', 'SE3', 'RxSO3'] if H.quick else GROUPS
    groups_deep = ['SO3', 'SE3', 'RxSO3'] if H.quick else GROUPS
    for g in groups_basic:
        if only and only not in g:
            continue
        try:
            case_log_basic(H, g)
        except Exception as e:
            import traceback; traceback.print_exc()
            H.engine_error('log/' + g, e)
    if H.quick and (not only or only in 'Sim3'):
        try:
            case_log_light(H, 'Sim3')
        except Exception as e:
            import traceback; traceback.print_exc()
            H.engine_error('log-light/Sim3', e)
    for g in groups_deep:
        if only and only not in g:
            continue
        for f in ((case_exp_log, case_log_exp) if (g == 'SO3' or not H.quick) else (case_exp_log,)):
            try:
                f(H, g)
            except Exception as e:
                import traceback; traceback.print_exc()
                H.engine_error(f.__name__ + '/' + g, e)
    return H.finish(explanation=EXPLAIN)
