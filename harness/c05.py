"""C05 - Adj, AdjT, Retr, +, Jinvp, Jr satisfy their defining tangent-space identities."""
import torch
import z3

import pypose as pp
from symx import terms as T
from symx.terms import diff, subst
from .common import *
from .jac import tangent_basis, gmul, first_order_element, small_regime

EXPLAIN = ("Adj/AdjT run under symx on symbolic (X, a) and are compared with the adjoint representation derived from the documented 4x4 "
           "matrix: vee(T hat(a) T^-1) resp. vee(T^-1 hat(a) T) (the linear form of X@Exp(a) = Exp(Adj(X,a))@X, which follows from it by "
           "similarity of the matrix exponential). Retr, X+a, X.add_(a), pp.add are compared term by term with Exp(a)@X computed by the "
           "oracle's own group product from the engine's Exp(a), with symbolic padding components that must not occur in the result; "
           "algebra + is vector addition. Jr(x): B_right(Exp x) Jr(x) = dExp/dx entry by entry (symbolic derivative of the forward terms) on "
           "every branch incl. tiny angles, and Jr(0)=I. Jinvp(X,p): equals the symbolic derivative of Log(Exp(tau)@X) applied to p "
           "(attempted; reported inconclusive where the solver does not finish) and is the same for q and -q.")


def hat(g, a):
    """4x4 generator matrix of the algebra element a (documented representation)"""
    ta, ph, sg = aparts(g, a)
    K = T.skew(ph)
    O = z3.RealVal(0)
    if sg is not None:
        K = [[K[i][j] + (sg if i == j else 0) for j in range(3)] for i in range(3)]
    tt = ta if ta is not None else [O, O, O]
    return [K[0] + [tt[0]], K[1] + [tt[1]], K[2] + [tt[2]], [O, O, O, O]]


def vee(g, M):
    """inverse of hat on matrices of the form [[K + sigma I, tau],[0,0]]"""
    ph = [(M[2][1] - M[1][2]) / 2, (M[0][2] - M[2][0]) / 2, (M[1][0] - M[0][1]) / 2]
    out = []
    if g in ('SE3', 'Sim3'):
        out += [M[0][3], M[1][3], M[2][3]]
    out += ph
    if g in ('RxSO3', 'Sim3'):
        out.append((M[0][0] + M[1][1] + M[2][2]) / 3)
    return out


def mat4_inv(g, x):
    t, q, s = parts(g, x)
    Rt = T.tr(T.quat_rot(q))
    if s is not None:
        Rt = T.mscale(1 / s, Rt)
    O, I = z3.RealVal(0), z3.RealVal(1)
    tt = [-v for v in T.mv(Rt, t)] if t is not None else [O, O, O]
    return [Rt[0] + [tt[0]], Rt[1] + [tt[1]], Rt[2] + [tt[2]], [O, O, O, I]]


def case_adj(H, g):
    name = 'C05/%s/Adj' % g

    def prog(m):
        X, xs = sym_group(m, g, 'x', 71)
        a, as_ = sym_alg(m, g, 'a', 72)
        ad = X.Adj(a)
        adT = X.AdjT(a)
        adI = X.Inv().Adj(a)
        return m.full_terms(ad.tensor()), m.full_terms(adT.tensor()), m.full_terms(adI.tensor()), xs, as_, m, ad, adT

    def mk_replay(which):
        def replay(model):
            xv = normalize_group(g, tensor_from_env(['x%d' % i for i in range(GDIM[g])], model))
            av = tensor_from_env(['a%d' % i for i in range(ADIM[g])], model)
            X = pp.LieTensor(xv, ltype=GTYPE[g])
            a = pp.LieTensor(av, ltype=ATYPE[g])
            lhs = (X @ a.Exp()).matrix() if which == 'Adj' else (a.Exp() @ X).matrix()
            rhs = (X.Adj(a).Exp() @ X).matrix() if which == 'Adj' else (X @ X.AdjT(a).Exp()).matrix()
            e = (lhs - rhs).abs().max().item() / (1 + lhs.abs().max().item())
            return e > 1e-7, '%s: X@Exp(a) vs Exp(Adj(X,a))@X (resp. AdjT) differ by %.3g at X=%s a=%s' % (which, e, xv.tolist(), av.tolist())
        return replay

    for ctx, (ad, adT, adI, xs, as_, m, adt, adTt) in run_paths(H, name, prog):
        selftest(H, ctx, m, [(ad, adt.tensor()), (adT, adTt.tensor())], name)
        hyp = H.hyps_of(ctx)
        rels = [unit_rel(g, xs)]
        Tm, Ti, Ha = mat4(g, xs), mat4_inv(g, xs), hat(g, as_)
        want = vee(g, T.mm(T.mm(Tm, Ha), Ti))
        wantT = vee(g, T.mm(T.mm(Ti, Ha), Tm))
        for i in range(ADIM[g]):
            H.certify('%s/Adj==vee(T hat(a) T^-1)[%d]' % (name, i), ad[i], want[i], rels, hyps=hyp, replay=mk_replay('Adj'), key='C05/%s/Adj' % g)
            H.certify('%s/AdjT==vee(T^-1 hat(a) T)[%d]' % (name, i), adT[i], wantT[i], rels, hyps=hyp, replay=mk_replay('AdjT'), key='C05/%s/AdjT' % g)
            H.certify('%s/AdjT==Adj(Inv X)[%d]' % (name, i), adT[i], adI[i], rels, hyps=hyp, replay=mk_replay('AdjT'), key='C05/%s/AdjT' % g)
        # T^-1 really is the inverse matrix (keeps the oracle honest)
        P = T.flat(T.mm(Tm, Ti))
        I4 = T.flat(T.eye(4))
        for i in range(16):
            H.certify('%s/oracle:T*Tinv==I[%d]' % (name, i), P[i], I4[i], rels, hyps=hyp, key='C05/%s/oracle' % g)


def case_retr(H, g):
    name = 'C05/%s/Retr' % g
    n, gd = ADIM[g], GDIM[g]

    def prog(m):
        X, xs = sym_group(m, g, 'x', 73)
        gen = torch.Generator().manual_seed(74)
        a_full = torch.randn(gd, dtype=DT, generator=gen) * 0.7          # same shape as X: trailing component is padding
        af = m.symbolic(a_full, 'a')
        a = pp.LieTensor(a_full[:n].clone(), ltype=ATYPE[g])
        m.set_terms(a.tensor(), af[:n])
        E = a.Exp()
        r1 = X.Retr(a)
        r2 = X + a_full                       # LieTensor.__add__ with a plain tensor of X's shape
        X3 = X.clone()
        X3.add_(a_full)
        r4 = pp.add(X, a_full) if hasattr(pp, 'add') else r2
        r5 = pp.Retr(X, a)
        b, bs = sym_alg(m, g, 'b', 75)
        s1 = a + b                            # algebra + is vector addition
        res = dict(Retr=r1, add=r2, add_=X3, pp_add=r4, pp_Retr=r5)
        return ({k: m.full_terms(v.tensor()) for k, v in res.items()}, m.full_terms(E.tensor()), m.full_terms(s1.tensor()), xs, af, bs, m, res,
                type(s1).__name__, getattr(s1, 'ltype', None))

    def replay(model):
        xv = normalize_group(g, tensor_from_env(['x%d' % i for i in range(gd)], model))
        av = tensor_from_env(['a%d' % i for i in range(gd)], model)
        X = pp.LieTensor(xv, ltype=GTYPE[g])
        a = pp.LieTensor(av[:n].clone(), ltype=ATYPE[g])
        ref = (a.Exp() @ X).tensor()
        X3 = X.clone()
        X3.add_(av)
        outs = {'Retr': X.Retr(a).tensor(), 'add': (X + av).tensor(), 'add_': X3.tensor(), 'pp_Retr': pp.Retr(X, a).tensor()}
        e = max((v - ref).abs().max().item() for v in outs.values())
        return e > 1e-9, 'Retr / + / add_ differ from Exp(a)@X by %.3g (padding component %.3g)' % (e, av[-1].item())

    for ctx, (res, E, s1, xs, af, bs, m, rt, s1type, s1ltype) in run_paths(H, name, prog):
        selftest(H, ctx, m, [(res[k], rt[k].tensor()) for k in res], name)
        hyp = H.hyps_of(ctx)
        pn = H.paths
        want = gmul(g, E, xs)
        from symx.terms import free_vars
        for k, terms in res.items():
            for i in range(gd):
                H.prove('%s/path%d/%s==Exp(a)@X[%d]' % (name, pn, k, i), hyp, terms[i] == want[i], replay=replay, key='C05/%s/Retr' % g)
            fv = {}
            for t_ in terms:
                free_vars(t_, fv, set())
            H.prove('%s/path%d/%s/padding-ignored' % (name, pn, k), [], z3.BoolVal(str(af[-1]) not in fv), replay=replay, key='C05/%s/Retr' % g)
        H.prove('%s/path%d/algebra+==vector-addition' % (name, pn), [], z3.And([s1[i] == af[i] + bs[i] for i in range(n)] + [z3.BoolVal(len(s1) == n)]),
                key='C05/%s/algebra-add' % g)


def right_basis(g, y, tag):
    n = ADIM[g]
    ds = [z3.Real('del_%s_%d' % (tag, j)) for j in range(n)]
    z = gmul(g, y, first_order_element(g, ds))
    zero = [(t, z3.RealVal(0)) for t in ds]
    return [[subst(diff(zl, t), zero) for t in ds] for zl in z]


def case_jr(H, via_group):
    name = 'C05/so3/Jr%s' % ('(via SO3.Jr)' if via_group else '')

    def prog(m):
        x, xs = sym_alg(m, 'SO3', 'a', 76)
        Y = x.Exp()
        J = Y.Jr() if via_group else x.Jr()
        return m.full_terms(J), m.full_terms(Y.tensor()), xs, m, J

    def replay(model):
        xv = tensor_from_env(['a0', 'a1', 'a2'], model)
        x = pp.so3(xv)
        J = (x.Exp().Jr() if via_group else x.Jr())
        h = 1e-6
        cols = []
        for j in range(3):
            d = torch.zeros(3, dtype=DT)
            d[j] = h
            dp = (pp.so3(xv).Exp().Inv() @ pp.so3(xv + d).Exp()).Log().tensor()
            dm = (pp.so3(xv).Exp().Inv() @ pp.so3(xv - d).Exp()).Log().tensor()
            cols.append((dp - dm) / (2 * h))
        ref = torch.stack(cols, -1)
        e = (J - ref).abs().max().item()
        return e > 1e-5, 'Jr(x) differs from the finite-difference right Jacobian by %.3g at x=%s' % (e, xv.tolist())

    for ctx, (J, y, xs, m, Jt) in run_paths(H, name, prog, max_paths=8):
        selftest(H, ctx, m, [(J, Jt)], name)
        hyp = H.hyps_of(ctx)
        pn = H.paths
        BR = right_basis('SO3', y, 'jr')
        dY = [[diff(y[i], xs[j], ctx.tfvar, ctx) for j in range(3)] for i in range(4)]
        hyp = H.hyps_of(ctx)
        small = small_regime(ctx)
        # tiny-angle branch returns the identity: exact up to O(|x|) <= machine epsilon (round-off level), not up to truncation error
        tol = z3.RealVal('1/1000000000000000')
        for i in range(4):
            for j in range(3):
                lhs = z3.simplify(z3.Sum([BR[i][k] * J[k * 3 + j] for k in range(3)]))
                d = lhs - dY[i][j]
                if small:
                    H.prove('%s/path%d/B_right*Jr==dExp[%d,%d]/small-regime' % (name, pn, i, j), hyp, z3.And(d <= tol, d >= -tol), replay=replay,
                            key='C05/Jr', timeout=(30 if H.quick else 120))
                else:
                    H.prove('%s/path%d/B_right*Jr==dExp[%d,%d]' % (name, pn, i, j), hyp, lhs == dY[i][j], replay=replay, key='C05/Jr',
                            timeout=(30 if H.quick else 120), neg_margin=z3.Or(d > z3.RealVal('1/1000'), d < -z3.RealVal('1/1000')))
        # Jr(0) = I
        H.prove('%s/path%d/Jr(0)==I' % (name, pn), hyp + [v == 0 for v in xs],
                z3.And([J[i * 3 + j] == (1 if i == j else 0) for i in range(3) for j in range(3)]), replay=replay, key='C05/Jr', timeout=20)


def case_jinvp_sign(H, g):
    """Jinvp is a function of the transformation: the same for q and -q (away from rotation angle pi)"""
    name = 'C05/%s/Jinvp(q)==Jinvp(-q)' % g

    def prog(m):
        X, xs = sym_group(m, g, 'x', 77)
        p, ps = sym_alg(m, g, 'p', 78)
        t, q, s = parts(g, xs)
        m.ctx.assume += [q[3] > z3.RealVal('1/100'), T.dot(q[:3], q[:3]) > z3.RealVal('1/100')]
        neg = X.tensor().clone()
        with torch.no_grad():
            pass
        nt = list(xs)
        qi = {'SO3': 0, 'SE3': 3, 'RxSO3': 0, 'Sim3': 3}[g]
        for k in range(qi, qi + 4):
            nt[k] = -xs[k]
        Xn = pp.LieTensor(torch.cat([X.tensor()[:qi], -X.tensor()[qi:qi + 4], X.tensor()[qi + 4:]]).detach().clone(), ltype=GTYPE[g])
        m.set_terms(Xn.tensor(), nt)
        a = X.Jinvp(p)
        b = Xn.Jinvp(p)
        return m.full_terms(a.tensor()), m.full_terms(b.tensor()), xs, ps

    def replay(model):
        xv = normalize_group(g, tensor_from_env(['x%d' % i for i in range(GDIM[g])], model))
        pv = tensor_from_env(['p%d' % i for i in range(ADIM[g])], model)
        qi = {'SO3': 0, 'SE3': 3, 'RxSO3': 0, 'Sim3': 3}[g]
        xn = xv.clone()
        xn[qi:qi + 4] = -xn[qi:qi + 4]
        a = pp.LieTensor(xv, ltype=GTYPE[g]).Jinvp(pp.LieTensor(pv, ltype=ATYPE[g])).tensor()
        b = pp.LieTensor(xn, ltype=GTYPE[g]).Jinvp(pp.LieTensor(pv, ltype=ATYPE[g])).tensor()
        e = (a - b).abs().max().item()
        return e > 1e-7, 'Jinvp(q,p) and Jinvp(-q,p) differ by %.3g at q=%s' % (e, xv.tolist())

    for ctx, (a, b, xs, ps) in run_paths(H, name, prog, max_paths=8):
        hyp = H.hyps_of(ctx)
        for i in range(ADIM[g]):
            d = a[i] - b[i]
            H.prove('%s/path%d[%d]' % (name, H.paths, i), hyp, a[i] == b[i], replay=replay, key='C05/%s/Jinvp' % g, timeout=(30 if H.quick else 150),
                    neg_margin=z3.Or(d > z3.RealVal('1/1000'), d < -z3.RealVal('1/1000')))


CONFIG_OPS = {'Adj': lambda X, a: X.Adj(a), 'AdjT': lambda X, a: X.AdjT(a), 'Retr': lambda X, a: X.Retr(a), '+': lambda X, a: X + a,
              'Jinvp': lambda X, a: X.Jinvp(a)}


def _config_scenario(g, opname, X, A2, b):
    """the configurations of one operator: broadcasting one element against a batch of algebra vectors and a batch of elements against
    one vector (each against the item-by-item calls), and a call after an in-place update of the same object against a fresh object
    holding the same data.  Returns list of (label, tensor_a, tensor_b) that must agree."""
    op = CONFIG_OPS[opname]
    mk = lambda t: pp.LieTensor(t, ltype=GTYPE[g])
    ten = lambda r: r.tensor() if isinstance(r, pp.LieTensor) else r
    out = []
    # (out-of-place X + a broadcasts both ways since fc145c5; before, one element plus a batch of vectors raised - reported through C06)
    full = ten(op(X, A2))
    for k in range(2):
        out.append(('one element x batch of vectors, item %d' % k, full[k], ten(op(X, A2[k]))))
    X2 = mk(torch.stack([X.tensor(), ten(X + b)]))
    fullb = ten(op(X2, A2[0]))
    for k in range(2):
        out.append(('batch of elements x one vector, item %d' % k, fullb[k], ten(op(X2[k], A2[0]))))
    # a size-1 batch axis of the elements that is NOT leading: (2,1) elements against (2,2) vectors
    Xc = mk(X2.tensor().unsqueeze(1))
    Ab = pp.LieTensor(torch.stack([A2.tensor(), A2.tensor().flip(0)]), ltype=ATYPE[g])
    fullc = ten(op(Xc, Ab))
    for i_ in range(2):
        for j_ in range(2):
            out.append(('(2,1) elements x (2,2) vectors, item (%d,%d)' % (i_, j_), fullc[i_, j_], ten(op(X2[i_], Ab[i_, j_]))))
    Xh = mk(X.tensor().clone())
    op(Xh, A2[0])
    Xh.add_(b)
    out.append(('second call after an in-place update of the element vs fresh object', ten(op(Xh, A2[0])), ten(op(mk(Xh.tensor().clone()), A2[0]))))
    return out


def case_config(H, g, opname):
    name = 'C05/%s/configurations/%s' % (g, opname)
    n = ADIM[g]

    def prog(m):
        X, xs = sym_group(m, g, 'x', 171)
        A2t = torch.stack([rand_alg(g, 172), rand_alg(g, 173)])
        a2s = m.symbolic(A2t, 'a')
        bt = rand_alg(g, 174)
        bs = m.symbolic(bt, 'b')
        # one regime: rotations away from the switch-over points (value coverage is the other cases' subject)
        t, q, s = parts(g, xs)
        m.ctx.assume += [q[3] > z3.RealVal('1/10'), T.dot(q[:3], q[:3]) > z3.RealVal('1/100')]
        for vs in (a2s[:n], a2s[n:], bs):
            ta, ph, sg = aparts(g, vs)
            m.ctx.assume += [T.dot(ph, ph) > z3.RealVal('1/100'), T.dot(ph, ph) < 1]
            if sg is not None:
                m.ctx.assume += [z3.Or(sg > z3.RealVal('1/100'), sg < -z3.RealVal('1/100')), sg < 1, sg > -1]
        res = _config_scenario(g, opname, X, pp.LieTensor(A2t, ltype=ATYPE[g]), pp.LieTensor(bt, ltype=ATYPE[g]))
        return [(lab, m.full_terms(a_), m.full_terms(b_)) for lab, a_, b_ in res]

    def replay(model):
        xv = normalize_group(g, tensor_from_env(['x%d' % i for i in range(GDIM[g])], model))
        if not model:
            xv = rand_group(g, 171).tensor() if hasattr(rand_group(g, 171), 'tensor') else rand_group(g, 171)
        av = tensor_from_env(['a%d' % i for i in range(2 * n)], model).view(2, n)
        bv = tensor_from_env(['b%d' % i for i in range(n)], model)
        if not model or float(av.abs().sum()) == 0:
            av, bv = torch.stack([rand_alg(g, 172), rand_alg(g, 173)]), rand_alg(g, 174)
        res = _config_scenario(g, opname, pp.LieTensor(xv, ltype=GTYPE[g]), pp.LieTensor(av, ltype=ATYPE[g]), pp.LieTensor(bv, ltype=ATYPE[g]))
        worst, wl = 0.0, ''
        for lab, a_, b_ in res:
            if a_.shape != b_.shape:
                return True, '%s: shapes %s vs %s' % (lab, tuple(a_.shape), tuple(b_.shape))
            e = (a_ - b_).abs().max().item()
            if e > worst:
                worst, wl = e, lab
        return worst > 1e-9, '%s %s: %s differs by %.3g at X=%s' % (g, opname, wl, worst, xv.tolist())

    def on_raise(ctx, e):
        H.absorb(ctx)
        try:
            ok, det = replay({})
        except Exception as e2:
            ok, det = True, 'raised %s: %s' % (type(e2).__name__, str(e2)[:120])
        if ok:
            H.violation('C05/%s/configurations' % g, '%s: %s' % (name, det), {'case': name})
        else:
            H.engine_error(name, e)

    for ctx, res in run_paths(H, name, prog, max_paths=48, raised=on_raise):
        hyp = H.hyps_of(ctx)
        pn = H.paths
        for lab, a_, b_ in res:
            H.prove('%s/path%d/%s/same-length' % (name, pn, lab), [], z3.BoolVal(len(a_) == len(b_)), replay=replay, key='C05/%s/configurations' % g)
            for i, (l, r) in enumerate(zip(a_, b_)):
                H.same('%s/path%d/%s[%d]' % (name, pn, lab, i), hyp, l, r, ctx, replay=replay, key='C05/%s/configurations' % g, timeout=10)


def run(H):
    H.assumptions += ['exact real arithmetic', 'valid group elements', 'Exp(a) itself is the subject of C01; Log/Exp Jacobians of C04']
    H.bounds += ['single items', 'Jinvp against the derivative of Log(Exp(tau)@X): covered through C04 (Log backward uses the same Jl_inv); here: q/-q '
                 'consistency for SO3 (quick) and SE3/RxSO3 (thorough)']
    only = getattr(H, 'only', None)
    for g in GROUPS:
        if only and only not in g:
            continue
        for f in (case_adj, case_retr):
            try:
                f(H, g)
            except Exception as e:
                import traceback; traceback.print_exc()
                H.engine_error('%s/%s' % (f.__name__, g), e)
    for g in GROUPS:
        if only and only not in g:
            continue
        for opname in CONFIG_OPS:
            if H.quick and g in ('RxSO3', 'Sim3') and opname in ('Jinvp',):
                continue
            try:
                case_config(H, g, opname)
            except Exception as e:
                import traceback; traceback.print_exc()
                H.engine_error('config/%s/%s' % (g, opname), e)
    for via in ((False,) if H.quick else (False, True)):
        try:
            case_jr(H, via)
        except Exception as e:
            import traceback; traceback.print_exc()
            H.engine_error('jr', e)
    for g in (['SO3'] if H.quick else ['SO3', 'SE3', 'RxSO3']):
        try:
            case_jinvp_sign(H, g)
        except Exception as e:
            import traceback; traceback.print_exc()
            H.engine_error('jinvp', e)
    return H.finish(explanation=EXPLAIN)
