"""C13 - EKF/UKF equal the Kalman filter on linear-Gaussian systems; covariances symmetric PSD."""
import torch
import z3

import pypose as pp
from symx import terms as T
from symx.engine import det_terms
from .common import *
from symx.engine import rat

EXPLAIN = ("EKF.forward and UKF.forward run under symx on a linear system x'=Ax+Bu+c1, y=Cx'+Du+c2 written as an NLS subclass, with "
           "symbolic A,B,C,D,c1,c2,x,u,y and symbolic SPD P,Q,R (Cholesky-parametrised); the linearisation is the real "
           "jacobian(vectorize=True) under the engine, pinv of the innovation covariance is its contract stub (= inverse when det != 0), "
           "the matrix square root of UKF is the Cholesky algorithm over reals. Oracle: the 6-line Kalman predict-then-update recursion "
           "written over z3 terms. Obligations: posterior mean and covariance equal the Kalman posterior entry by entry, for EKF also on a "
           "nonlinear NLS the documented recursion with the innovation at the predicted state; posterior covariance symmetric and "
           "v^T P v >= 0 for symbolic v; PF.compute_cov symmetric PSD for symbolic particles. PF convergence (statistical) is outside.")


def spd_sym(m, n, name, seed):
    """SPD matrix tensor parametrised by a symbolic lower Cholesky factor with positive diagonal: returns tensor + term matrix"""
    gen = torch.Generator().manual_seed(seed)
    L = torch.tril(torch.randn(n, n, dtype=DT, generator=gen))
    L = L - torch.diag(torch.diag(L)) + torch.diag(torch.rand(n, dtype=DT, generator=gen) + 0.5)
    ls = {}
    Lt = [[z3.RealVal(0)] * n for _ in range(n)]
    for i in range(n):
        for j in range(i + 1):
            v = z3.Real('%s_l%d%d' % (name, i, j))
            Lt[i][j] = v
            m.ctx.env[str(v)] = L[i, j].item()
        m.ctx.assume.append(Lt[i][i] > 0)
    M = (L @ L.T).contiguous()
    Mt = T.mm(Lt, T.tr(Lt))
    Mt = [[z3.simplify(e) for e in row] for row in Mt]
    m.set_terms(M, T.flat(Mt))
    return M, Mt, Lt



def _raise_infeasible(H, name, key):
    """a path on which the real code raises (Cholesky of a non-positive-definite matrix): with SPD P, Q, R it must be infeasible"""
    def on_raise(ctx, e):
        H.absorb(ctx)
        H.prove('%s/raising-path%d-infeasible(%s)' % (name, H.paths, type(e).__name__), H.hyps_of(ctx), z3.BoolVal(False), key=key,
                timeout=(30 if H.quick else 120))
    return on_raise


def kalman(A, B, C, D, c1, c2, x, u, y, P, Q, R, n, p):
    xm = [a + b + c for a, b, c in zip(T.mv(A, x), T.mv(B, u), c1)]
    Pm = T.madd(T.mm(T.mm(A, P), T.tr(A)), Q)
    S = T.madd(T.mm(T.mm(C, Pm), T.tr(C)), R)
    if p == 1:
        Sinv = [[1 / S[0][0]]]
    else:
        d = det_terms(T.flat(S), p)
        from symx.engine import adjugate_terms
        adj = adjugate_terms(T.flat(S), p)
        Sinv = T.mat([a / d for a in adj], p, p)
    K = T.mm(T.mm(Pm, T.tr(C)), Sinv)
    yhat = [a + b + c for a, b, c in zip(T.mv(C, xm), T.mv(D, u), c2)]
    xp = [a + b for a, b in zip(xm, T.mv(K, [yy - h for yy, h in zip(y, yhat)]))]
    Pp = T.mm(T.msub(T.eye(n), T.mm(K, C)), Pm)
    return xp, Pp, S


def case_linear(H, filt, n, mdim, p, kpar=None):
    name = 'C13/%s/linear/n=%d,m=%d,p=%d%s' % (filt, n, mdim, p, '' if kpar is None else '/k=%s' % kpar)

    def build(m):
        r = lambda *s: torch.randn(*s, dtype=DT)
        ten = dict(A=r(n, n), B=r(n, mdim), C=r(p, n), D=r(p, mdim), c1=r(n), c2=r(p), x=r(n), u=r(mdim), y=r(p))
        sym = {k: m.symbolic(v, k) for k, v in ten.items()}
        P, Pt, _ = spd_sym(m, n, 'P', 11)
        Q, Qt, _ = spd_sym(m, n, 'Q', 12)
        R, Rt, _ = spd_sym(m, p, 'R', 13)
        return ten, sym, (P, Q, R), (Pt, Qt, Rt)

    def mk_model(ten):
        class Lin(pp.module.NLS):
            def state_transition(self, state, input, t=None):
                return pp.bmv(ten['A'], state) + pp.bmv(ten['B'], input) + ten['c1']

            def observation(self, state, input, t=None):
                return pp.bmv(ten['C'], state) + pp.bmv(ten['D'], input) + ten['c2']
        return Lin()

    def prog(m):
        ten, sym, (P, Q, R), (Pt, Qt, Rt) = build(m)
        model = mk_model(ten)
        F = {'EKF': pp.module.EKF, 'UKF': pp.module.UKF}[filt](model, Q, R)
        if filt == 'UKF' and kpar is not None:
            xo, Po = F(ten['x'], ten['y'], ten['u'], P, k=kpar)
        else:
            xo, Po = F(ten['x'], ten['y'], ten['u'], P)
        return m.full_terms(xo), m.full_terms(Po), sym, Pt, Qt, Rt, m, xo, Po

    def replay(model_):
        torch.manual_seed(17)
        r = lambda *s: torch.randn(*s, dtype=DT)
        ten = dict(A=r(n, n), B=r(n, mdim), C=r(p, n), D=r(p, mdim), c1=r(n), c2=r(p), x=r(n), u=r(mdim), y=r(p))

        def spd(k):
            L = torch.randn(k, k, dtype=DT)
            return L @ L.T + 0.5 * torch.eye(k, dtype=DT)
        P, Q, R = spd(n), spd(n), spd(p)
        F = {'EKF': pp.module.EKF, 'UKF': pp.module.UKF}[filt](mk_model(ten), Q, R)
        xo, Po = F(ten['x'], ten['y'], ten['u'], P, **({'k': kpar} if (filt == 'UKF' and kpar is not None) else {}))
        A, B, C, D = ten['A'], ten['B'], ten['C'], ten['D']
        xm = A @ ten['x'] + B @ ten['u'] + ten['c1']
        Pm = A @ P @ A.T + Q
        S = C @ Pm @ C.T + R
        K = Pm @ C.T @ torch.linalg.inv(S)
        xk = xm + K @ (ten['y'] - (C @ xm + D @ ten['u'] + ten['c2']))
        Pk = (torch.eye(n, dtype=DT) - K @ C) @ Pm
        e = max((xo - xk).abs().max().item(), (Po - Pk).abs().max().item())
        if e > 1e-7:
            return True, '%s posterior differs from the Kalman posterior by %.3g on a random linear-Gaussian system (n=%d,p=%d)' % (filt, e, n, p)
        # the same system with covariances scaled down (the property ranges over 6 orders of magnitude) and in both dtypes, against the
        # float64 Kalman posterior; errors relative to the posterior covariance's own size
        worst, ww = 0.0, ''
        for sc in (1.0, 1e-3, 1e-6):
            Ps, Qs, Rs = P * sc, Q * sc, R * sc
            Pm = A @ Ps @ A.T + Qs
            S = C @ Pm @ C.T + Rs
            K = Pm @ C.T @ torch.linalg.inv(S)
            xk = xm + K @ (ten['y'] - (C @ xm + D @ ten['u'] + ten['c2']))
            Pk = (torch.eye(n, dtype=DT) - K @ C) @ Pm
            for dt_, tol_ in ((DT, 1e-8), (torch.float32, 2e-2)):
                t32 = {k_: v_.to(dt_) for k_, v_ in ten.items()}

                class LinD(pp.module.NLS):
                    def state_transition(self, state, input, t=None):
                        return pp.bmv(t32['A'], state) + pp.bmv(t32['B'], input) + t32['c1']

                    def observation(self, state, input, t=None):
                        return pp.bmv(t32['C'], state) + pp.bmv(t32['D'], input) + t32['c2']
                Fd = {'EKF': pp.module.EKF, 'UKF': pp.module.UKF}[filt](LinD(), Qs.to(dt_), Rs.to(dt_))
                try:
                    xo_, Po_ = Fd(t32['x'], t32['y'], t32['u'], Ps.to(dt_), **({'k': kpar} if (filt == 'UKF' and kpar is not None) else {}))
                except Exception:
                    continue
                er = max((Po_.double() - Pk).abs().max().item() / Pk.abs().max().item(), (xo_.double() - xk).abs().max().item() / (1 + xk.abs().max().item()))
                if er / tol_ > worst:
                    worst, ww = er / tol_, 'covariance scale %g, %s: relative deviation %.3g (allowed %.1g)' % (sc, str(dt_), er, tol_)
        return worst > 1.0, '%s posterior vs Kalman posterior: %s' % (filt, ww)

    def replay_illcond(model_):
        # ill-conditioned innovation covariance (cond ~ 1e8, the property's documented range) with p=2 observations
        torch.manual_seed(3)
        nn_, pp_ = 2, 2
        r = lambda *s: torch.randn(*s, dtype=DT)
        ten = dict(A=r(nn_, nn_), B=r(nn_, 1), C=torch.eye(2, dtype=DT) + 0.1 * r(pp_, nn_), D=r(pp_, 1), c1=r(nn_), c2=r(pp_), x=r(nn_), u=r(1), y=r(pp_))
        P, Q, R = 1e-2 * torch.eye(2, dtype=DT), 1e-2 * torch.eye(2, dtype=DT), torch.diag(torch.tensor([1e-4, 1e4], dtype=DT))

        class Lin2(pp.module.NLS):
            def state_transition(self, state, input, t=None):
                return pp.bmv(ten['A'], state) + pp.bmv(ten['B'], input) + ten['c1']

            def observation(self, state, input, t=None):
                return pp.bmv(ten['C'], state) + pp.bmv(ten['D'], input) + ten['c2']
        F = {'EKF': pp.module.EKF, 'UKF': pp.module.UKF}[filt](Lin2(), Q, R)
        xo, Po = F(ten['x'], ten['y'], ten['u'], P)
        A, B, C, D = ten['A'], ten['B'], ten['C'], ten['D']
        xm = A @ ten['x'] + B @ ten['u'] + ten['c1']
        Pm = A @ P @ A.T + Q
        S = C @ Pm @ C.T + R
        K = torch.linalg.solve(S, C @ Pm).T
        xk = xm + K @ (ten['y'] - (C @ xm + D @ ten['u'] + ten['c2']))
        Pk = (torch.eye(nn_, dtype=DT) - K @ C) @ Pm
        e = max((xo - xk).abs().max().item() / (1 + xk.abs().max().item()), (Po - Pk).abs().max().item() / (1 + Pk.abs().max().item()))
        return e > 1e-5, '%s differs from the Kalman posterior by %.3g (relative) when the innovation covariance has condition number %.1e' % (
            filt, e, torch.linalg.cond(S).item())

    for ctx, (xo, Po, sym, Pt, Qt, Rt, m, xot, Pot) in run_paths(H, name, prog, max_paths=4, raised=_raise_infeasible(H, name, 'C13/%s/kalman' % filt)):
        selftest(H, ctx, m, [(xo, xot), (Po, Pot)], name)
        # the pseudo-inverse must be taken with the kernel's default (no truncation) tolerances: a truncating tolerance makes
        # the gain differ from the Kalman gain for ill-conditioned (but legal) innovation covariances
        for call in getattr(ctx, 'pinv_calls', []):
            from symx.engine import _nonzero_tol
            if any(_nonzero_tol(call.get(kk)) for kk in ('atol', 'rtol')) or any(_nonzero_tol(a_) for a_ in (call.get('extra') or [])[:2]):
                H.prove(name + '/pinv-without-truncation', [], z3.BoolVal(False), replay=replay_illcond, key='C13/%s/kalman' % filt)
        hyp = H.hyps_of(ctx)
        A, B = T.mat(sym['A'], n, n), T.mat(sym['B'], n, mdim)
        C, D = T.mat(sym['C'], p, n), T.mat(sym['D'], p, mdim)
        xk, Pk, S = kalman(A, B, C, D, sym['c1'], sym['c2'], sym['x'], sym['u'], sym['y'], Pt, Qt, Rt, n, p)
        # lemma: innovation covariance is positive definite (so pinv = inverse); scalar case direct, 2x2 by minors
        if p == 1:
            lem = [S[0][0] > 0]
        else:
            lem = [S[0][0] > 0, det_terms(T.flat(S), p) > 0]
        L = H.prove(name + '/lemma:S-positive-definite', list(ctx.assume), z3.And(lem), key='C13/%s/kalman' % filt, timeout=(30 if H.quick else 120))
        hyp2 = hyp + lem
        to = 30 if H.quick else 180
        # relations contributed by the contract stubs on this path (L L^T = (n+k) P, pinv(S) S = 1, sqrt definitions): each is
        # first proved to follow from the path's hypotheses, then used by the certificate search
        rels = [g for (_, g) in ctx.relations] + [v * v - a for (fn, _), (v, a) in ctx.tf.items() if fn == 'sqrt']
        pc_ = getattr(ctx, 'pinv_calls', [])
        if p == 1 and len(pc_) == 1 and pc_[0].get('shape') == (1, 1):
            # scalar innovation: staged.  (a) the Cholesky relations (info == 0 on this path) hold; (b) the innovation covariance the code
            # hands to pinv IS the Kalman S (polynomial certificate modulo (a), the factor variables eliminated in creation order);
            # (c) hence it is positive and the stub's inverse is 1/S; (d) mean and covariance with pinv replaced by 1/S.
            from symx.terms import free_vars, subst
            chol = [g for (cnd, g) in ctx.relations if 'chol_info' in str(cnd)]
            cv = {}
            for g in chol:
                for nm_, v_ in free_vars(g).items():
                    if nm_.startswith('chol_'):
                        cv[nm_] = v_
            elim = [cv[k_] for k_ in sorted(cv, key=lambda s_: -int(s_.split('!')[1]))]
            LA = H.prove(name + '/lemma:cholesky-relations-hold', hyp, z3.And([g == 0 for g in chol]) if chol else z3.BoolVal(True),
                         key='C13/%s/kalman' % filt, timeout=to)
            Sc, pv = pc_[0]['A'][0], pc_[0]['P'][0]
            LB = H.certify(name + '/lemma:code-innovation-covariance==Kalman-S', Sc, S[0][0], chol, hyps=hyp, depends=[LA], elim=elim, replay=replay,
                           key='C13/%s/kalman' % filt, timeout=to)
            # (focused: only the stub's own axioms about this pinv variable, plus the two lemmas)
            pax = [ax for ax in ctx.axioms if str(pv) in free_vars(ax)]
            LC = H.prove(name + '/lemma:pinv==1/S', pax + [Sc == S[0][0], S[0][0] > 0], pv * S[0][0] == 1, depends=[L, LB], key='C13/%s/kalman' % filt, timeout=to)
            deps = [L, LA, LB, LC]
            hyp3 = hyp2 + [g == 0 for g in chol] + [Sc == S[0][0], pv * S[0][0] == 1]
            sub = [(pv, 1 / S[0][0])]
            for i in range(n):
                H.certify('%s/mean[%d]' % (name, i), subst(xo[i], sub), xk[i], chol, hyps=hyp3, replay=replay, key='C13/%s/kalman' % filt, depends=deps,
                          elim=elim, timeout=3 * to)
            for i in range(n):
                for j in range(n):
                    H.certify('%s/cov[%d,%d]' % (name, i, j), subst(Po[i * n + j], sub), Pk[i][j], chol, hyps=hyp3, replay=replay,
                              key='C13/%s/kalman' % filt, depends=deps, elim=elim, timeout=3 * to)
            # symmetric / PSD follow from equality with the Kalman posterior, whose PSD-ness is a fact about the oracle terms alone
            vs = [z3.Real('v%d' % i) for i in range(n)]
            quadk = z3.Sum([vs[i] * Pk[i][j] * vs[j] for i in range(n) for j in range(n)])
            H.prove('%s/kalman-posterior-psd' % name, list(ctx.assume) + [S[0][0] > 0], quadk >= 0, key='C13/%s/psd' % filt, depends=[L], timeout=to)
            H.reach(name + '/reach', hyp)
            continue
        LR = H.prove(name + '/lemma:stub-relations-hold', hyp2, z3.And([g == 0 for g in rels]) if rels else z3.BoolVal(True),
                     key='C13/%s/kalman' % filt, depends=[L], timeout=to)
        for i in range(n):
            H.certify('%s/mean[%d]' % (name, i), xo[i], xk[i], rels, hyps=hyp2, replay=replay, key='C13/%s/kalman' % filt, depends=[L, LR], timeout=to)
        for i in range(n):
            for j in range(n):
                H.certify('%s/cov[%d,%d]' % (name, i, j), Po[i * n + j], Pk[i][j], rels, hyps=hyp2, replay=replay, key='C13/%s/kalman' % filt,
                          depends=[L, LR], timeout=to)
        for i in range(n):
            for j in range(i):
                H.prove('%s/cov-symmetric[%d,%d]' % (name, i, j), hyp2, Po[i * n + j] == Po[j * n + i], replay=replay, key='C13/%s/symmetric' % filt,
                        depends=[L], timeout=to)
        vs = [z3.Real('v%d' % i) for i in range(n)]
        quad = z3.Sum([vs[i] * Po[i * n + j] * vs[j] for i in range(n) for j in range(n)])
        H.prove('%s/cov-psd' % name, hyp2, quad >= 0, replay=replay, key='C13/%s/psd' % filt, depends=[L], timeout=to)
        H.reach(name + '/reach', hyp)


def case_ukf_history(H):
    """one UKF object used for two consecutive steps with DIFFERENT sigma-point parameters k: the second posterior must be the
    Kalman posterior of the first (state carried inside the filter object must not leak between calls)"""
    name = 'C13/UKF/history/k-changes-between-steps'
    n = 1

    def mk(ten):
        class Lin(pp.module.NLS):
            def state_transition(self, state, input, t=None):
                return pp.bmv(ten['A'], state) + pp.bmv(ten['B'], input) + ten['c1']

            def observation(self, state, input, t=None):
                return pp.bmv(ten['C'], state) + pp.bmv(ten['D'], input) + ten['c2']
        return Lin()

    def prog(m):
        r = lambda *s: torch.randn(*s, dtype=DT)
        ten = dict(A=r(1, 1), B=r(1, 1), C=r(1, 1), D=r(1, 1), c1=r(1), c2=r(1), x=r(1), u=r(1), y=r(1), y2=r(1))
        sym = {k: m.symbolic(v, k) for k, v in ten.items()}
        P, Pt, _ = spd_sym(m, 1, 'P', 41)
        Q, Qt, _ = spd_sym(m, 1, 'Q', 42)
        R, Rt, _ = spd_sym(m, 1, 'R', 43)
        F = pp.module.UKF(mk(ten), Q, R)
        x1, P1 = F(ten['x'], ten['y'], ten['u'], P, k=2)
        x2, P2 = F(x1, ten['y2'], ten['u'], P1, k=0.5)
        return m.full_terms(x2), m.full_terms(P2), sym, Pt, Qt, Rt

    def replay(model_):
        torch.manual_seed(9)
        r = lambda *s: torch.randn(*s, dtype=DT)
        ten = dict(A=r(1, 1), B=r(1, 1), C=r(1, 1), D=r(1, 1), c1=r(1), c2=r(1), x=r(1), u=r(1), y=r(1), y2=r(1))
        P, Q, R = torch.tensor([[0.7]], dtype=DT), torch.tensor([[0.3]], dtype=DT), torch.tensor([[0.2]], dtype=DT)
        F = pp.module.UKF(mk(ten), Q, R)
        x1, P1 = F(ten['x'], ten['y'], ten['u'], P, k=2)
        x2, P2 = F(x1, ten['y2'], ten['u'], P1, k=0.5)

        def kf(x, P, y):
            A, B, C, D = ten['A'], ten['B'], ten['C'], ten['D']
            xm = A @ x + B @ ten['u'] + ten['c1']
            Pm = A @ P @ A.T + Q
            S = C @ Pm @ C.T + R
            K = Pm @ C.T / S
            return xm + K @ (y - (C @ xm + D @ ten['u'] + ten['c2'])), (torch.eye(1, dtype=DT) - K @ C) @ Pm
        a, Pa = kf(ten['x'], P, ten['y'])
        b, Pb = kf(a, Pa, ten['y2'])
        e = max((x2 - b).abs().max().item(), (P2 - Pb).abs().max().item())
        return e > 1e-7, 'second UKF step (k changed from 2 to 0.5 on the same filter object) differs from the Kalman posterior by %.3g' % e

    for ctx, (x2, P2, sym, Pt, Qt, Rt) in run_paths(H, name, prog, max_paths=4, raised=_raise_infeasible(H, name, 'C13/UKF/kalman')):
        hyp = H.hyps_of(ctx)
        A, B = T.mat(sym['A'], 1, 1), T.mat(sym['B'], 1, 1)
        C, D = T.mat(sym['C'], 1, 1), T.mat(sym['D'], 1, 1)
        xa, Pa, S1 = kalman(A, B, C, D, sym['c1'], sym['c2'], sym['x'], sym['u'], sym['y'], Pt, Qt, Rt, 1, 1)
        xb, Pb, S2 = kalman(A, B, C, D, sym['c1'], sym['c2'], xa, sym['u'], sym['y2'], Pa, Qt, Rt, 1, 1)
        L = H.prove(name + '/lemma:S-positive', list(ctx.assume), z3.And(S1[0][0] > 0, Pa[0][0] > 0), key='C13/UKF/kalman', timeout=30)
        L2 = H.prove(name + '/lemma:S2-positive', list(ctx.assume) + [S1[0][0] > 0, Pa[0][0] > 0], S2[0][0] > 0, key='C13/UKF/kalman', timeout=30, depends=[L])
        hyp2 = hyp + [S1[0][0] > 0, S2[0][0] > 0, Pa[0][0] > 0]
        H.prove(name + '/mean', hyp2, x2[0] == xb[0], replay=replay, key='C13/UKF/kalman', depends=[L, L2], timeout=(40 if H.quick else 200))
        H.prove(name + '/cov', hyp2, P2[0] == Pb[0][0], replay=replay, key='C13/UKF/kalman', depends=[L, L2], timeout=(40 if H.quick else 200))


def case_ekf_nonlinear(H, n=2):
    """EKF on a nonlinear NLS equals the documented recursion applied to the autograd linearisation at the prior mean,
    with the innovation at the predicted state"""
    name = 'C13/EKF/nonlinear/n=%d' % n

    def f(x, u):
        return x.cos() + u

    def g(x, u):
        return x.sin() + u

    class NL(pp.module.NLS):
        def state_transition(self, state, input, t=None):
            return f(state, input)

        def observation(self, state, input, t=None):
            return g(state, input)

    def prog(m):
        x, u, y = torch.randn(n, dtype=DT), torch.randn(n, dtype=DT), torch.randn(n, dtype=DT)
        xs, us, ys = m.symbolic(x, 'x'), m.symbolic(u, 'u'), m.symbolic(y, 'y')
        P, Pt, _ = spd_sym(m, n, 'P', 21)
        Q, Qt, _ = spd_sym(m, n, 'Q', 22)
        R, Rt, _ = spd_sym(m, n, 'R', 23)
        xo, Po = pp.module.EKF(NL(), Q, R)(x, y, u, P)
        return m.full_terms(xo), m.full_terms(Po), xs, us, ys, Pt, Qt, Rt

    def replay(model_):
        torch.manual_seed(5)
        x, u, y = torch.randn(n, dtype=DT), torch.randn(n, dtype=DT), torch.randn(n, dtype=DT)

        def spd(k):
            L = torch.randn(k, k, dtype=DT)
            return L @ L.T + 0.5 * torch.eye(k, dtype=DT)
        P, Q, R = spd(n), spd(n), spd(n)
        xo, Po = pp.module.EKF(NL(), Q, R)(x, y, u, P)
        A = torch.diag(-x.sin())
        C = torch.diag(x.cos())
        xm = f(x, u)
        Pm = A @ P @ A.T + Q
        K = Pm @ C.T @ torch.linalg.inv(C @ Pm @ C.T + R)
        xk = xm + K @ (y - g(xm, u))
        Pk = (torch.eye(n, dtype=DT) - K @ C) @ Pm
        e = max((xo - xk).abs().max().item(), (Po - Pk).abs().max().item())
        return e > 1e-7, 'EKF differs from its documented recursion by %.3g' % e

    for ctx, (xo, Po, xs, us, ys, Pt, Qt, Rt) in run_paths(H, name, prog, max_paths=4):
        hyp = H.hyps_of(ctx)
        sx = [ctx.tfun('sin', v) for v in xs]
        cx = [ctx.tfun('cos', v) for v in xs]
        A = [[-sx[i] if i == j else z3.RealVal(0) for j in range(n)] for i in range(n)]
        C = [[cx[i] if i == j else z3.RealVal(0) for j in range(n)] for i in range(n)]
        xm = [cx[i] + us[i] for i in range(n)]
        Pm = T.madd(T.mm(T.mm(A, Pt), T.tr(A)), Qt)
        S = T.madd(T.mm(T.mm(C, Pm), T.tr(C)), Rt)
        d = det_terms(T.flat(S), n)
        from symx.engine import adjugate_terms
        Sinv = T.mat([a / d for a in adjugate_terms(T.flat(S), n)], n, n)
        K = T.mm(T.mm(Pm, T.tr(C)), Sinv)
        innov = [ys[i] - (ctx.tfun('sin', xm[i]) + us[i]) for i in range(n)]
        xk = [a + b for a, b in zip(xm, T.mv(K, innov))]
        Pk = T.mm(T.msub(T.eye(n), T.mm(K, C)), Pm)
        hyp = H.hyps_of(ctx)
        lem = [S[0][0] > 0, d > 0] if n > 1 else [S[0][0] > 0]
        L = H.prove(name + '/lemma:S-positive-definite', list(ctx.assume) + H.hyps_of(ctx), z3.And(lem), key='C13/EKF/recursion', timeout=(30 if H.quick else 120))
        for i in range(n):
            H.prove('%s/mean[%d]' % (name, i), hyp + lem, xo[i] == xk[i], replay=replay, key='C13/EKF/recursion', depends=[L], timeout=(30 if H.quick else 120))
        for i in range(n):
            for j in range(n):
                H.prove('%s/cov[%d,%d]' % (name, i, j), hyp + lem, Po[i * n + j] == Pk[i][j], replay=replay, key='C13/EKF/recursion', depends=[L],
                        timeout=(30 if H.quick else 120))


def case_pf_cov(H):
    name = 'C13/PF/compute_cov'
    N, n = 3, 2

    def prog(m):
        ex = torch.randn(N, n, dtype=DT)
        es = m.symbolic(ex, 'e')
        Q, Qt, _ = spd_sym(m, n, 'Q', 31)

        class Dummy(pp.module.NLS):
            pass
        pf = pp.module.PF(Dummy(), particles=N)
        Pc = pf.compute_cov(ex, ex, Q)
        return m.full_terms(Pc), es, Qt

    for ctx, (Pc, es, Qt) in run_paths(H, name, prog):
        hyp = H.hyps_of(ctx)
        H.prove(name + '/symmetric', hyp, Pc[1] == Pc[2], key='C13/PF/cov')
        vs = [z3.Real('v%d' % i) for i in range(n)]
        quad = z3.Sum([vs[i] * Pc[i * n + j] * vs[j] for i in range(n) for j in range(n)])
        H.prove(name + '/psd', hyp, quad >= 0, key='C13/PF/cov', timeout=30)
        # definition: Q + mean_i e_i e_i^T
        ref = [Qt[i][j] + z3.Sum([es[k * n + i] * es[k * n + j] for k in range(N)]) / N for i in range(n) for j in range(n)]
        H.prove(name + '/definition', hyp, z3.And([a == b for a, b in zip(Pc, ref)]), key='C13/PF/cov')


def case_pf_forward_variance(H, f32=False):
    """PF.forward end to end (sampling, likelihood weights, resampling, mean, covariance) on a scalar linear system under the
    STANDARD MODEL of floating-point arithmetic (every arithmetic result times (1 + delta), |delta| <= u): the returned variance is
    non-negative for every prior mean |x| <= 1e8 (1e4 in float32) and all rounding errors.  The random draws are whatever the
    generator produced during the run (they select the path); the obligation quantifies over x and the deltas."""
    name = 'C13/PF/forward/variance>=0%s' % ('/float32' if f32 else '')
    dt = torch.float32 if f32 else DT
    u = rat(torch.finfo(dt).eps) / 2
    bound = 10000 if f32 else 100000000

    class Lin(pp.module.NLS):
        def state_transition(self, state, input, t=None):
            return 0.9 * state + input

        def observation(self, state, input, t=None):
            return state

    def consts():
        c = lambda v: torch.tensor(v, dtype=dt)
        return c([[0.01]]), c([[0.01]]), c([[0.01]]), c([1.4]), c([0.1])

    def prog(m):
        m.ctx.round_u = u
        m.ctx.havoc_rand = True        # the resampling draws are arbitrary numbers in [0, 1)
        x = torch.tensor([1.5], dtype=dt)
        xs = m.symbolic(x, 'x')
        m.ctx.assume += [xs[0] >= -bound, xs[0] <= bound]
        P, Q, R, y, uu = consts()
        torch.manual_seed(4)
        xo, Po = pp.module.PF(Lin(), Q, R, particles=2)(x, y, uu, P)
        return m.full_terms(Po)[0], xs

    def replay(model):
        x0 = float(model.get('x0', bound / 2))
        P, Q, R, y, uu = consts()
        worst, wx = 0.0, None
        for f in (1.0, -1.0, 0.5, 0.25, 0.9):
            for seed in range(6):
                torch.manual_seed(seed)
                xv = torch.tensor([max(-bound, min(bound, x0 * f))], dtype=dt)
                try:
                    xo, Po = pp.module.PF(Lin(), Q, R, particles=200)(xv, xv * 0.9 + 0.1, uu, P)
                except IndexError:
                    continue
                v = Po.double().reshape(-1)[0].item()
                if -v > worst:
                    worst, wx = -v, xv.item()
        return worst > 0, 'PF.forward returned a negative variance %.3g at prior mean x=%s (%s)' % (-worst, wx, str(dt))

    def replay_raise(model):
        # a resampling draw above the rounded cumulative weight sum: look for it on the real code (float32, many particles, several seeds)
        class M2(pp.module.NLS):
            def state_transition(self, s_, u_, t=None):
                return s_ + u_

            def observation(self, s_, u_, t=None):
                return s_
        pf = pp.module.PF(M2(), particles=100000)
        z_, I_ = torch.zeros(2), torch.eye(2)
        for seed in range(30, 60):
            torch.manual_seed(seed)
            try:
                pf(z_, z_, z_, I_, 0.01 * I_, I_)
            except IndexError as e:
                return True, 'PF.forward raised IndexError in resample_particles (float32, 1e5 particles, seed %d): %s' % (seed, str(e)[:80])
        return False, 'no IndexError over 30 seeds'

    def on_raise(ctx, e):
        # resampling index out of range: cumsum(q)[-1] < r for a draw r in [0, 1).  With arbitrary draws and rounded arithmetic the
        # raising path must be infeasible
        H.absorb(ctx)
        # (focused: the path condition, the ranges of x / draws / rounding variables and positivity of the exponentials suffice either way)
        pos = [v_ > 0 for (fn_, a_, v_) in ctx.tfvar.values() if fn_ == 'exp']
        H.prove('%s/raising-path%d-infeasible(%s)' % (name, H.paths, type(e).__name__), list(ctx.assume) + list(ctx.pc) + pos + [z3.And(d <= u, d >= -u) for d in ctx.deltas],
                z3.BoolVal(False), key='C13/PF/resample', replay=replay_raise, timeout=(20 if H.quick else 60))

    for ctx, (Pv, xs) in run_paths(H, name, prog, max_paths=16, raised=on_raise, f32=f32):
        # focused: the variance term depends on x and the rounding variables only
        hyp = list(ctx.assume) + [z3.And(d <= u, d >= -u) for d in ctx.deltas]
        H.prove('%s/path%d' % (name, H.paths), hyp, Pv >= 0, replay=replay, key='C13/PF/forward', timeout=(30 if H.quick else 120))
        H.notes.append('%s path %d: %d rounding variables' % (name, H.paths, len(ctx.deltas)))


def case_pf_likelihood(H):
    """the importance weights of the documented particle model: PF.relative_likelihood(y, ye, R) must be the normalised Gaussian
    likelihoods N(y; ye_i, R) - for a NON-diagonal R: log(q_0 / q_1) = -1/2 (e_0^T R^-1 e_0 - e_1^T R^-1 e_1), e_i = y - ye_i.
    Observed through the arguments of the two exponentials of the softmax."""
    name = 'C13/PF/relative_likelihood/non-diagonal-R'
    R = torch.tensor([[2.0, 0.6], [0.6, 1.0]], dtype=DT)
    Ri = torch.linalg.inv(R)

    class Dummy(pp.module.NLS):
        pass

    def prog(m):
        ye = torch.randn(2, 2, dtype=DT)
        y = torch.randn(2, dtype=DT)
        yes, ys = m.symbolic(ye, 'e'), m.symbolic(y, 'y')
        pf = pp.module.PF(Dummy(), particles=2)
        q = pf.relative_likelihood(y, ye, R)
        args = [a for (fn, a, v) in m.ctx.tfvar.values() if fn == 'exp']
        return m.full_terms(q), args, yes, ys

    def replay(model):
        ye = tensor_from_env(['e%d' % i for i in range(4)], model).view(2, 2)
        y = tensor_from_env(['y0', 'y1'], model)
        if float(ye.abs().sum()) == 0:
            ye, y = torch.tensor([[0.3, -0.2], [1.1, 0.4]], dtype=DT), torch.tensor([0.5, 0.9], dtype=DT)
        q = pp.module.PF(Dummy(), particles=2).relative_likelihood(y, ye, R)
        d = y - ye
        ll = -0.5 * torch.einsum('ni,ij,nj->n', d, Ri, d)
        ref = torch.softmax(ll, -1)
        e = (q - ref).abs().max().item()
        return e > 1e-9, 'relative_likelihood differs from the normalised Gaussian likelihoods N(y; ye_i, R) by %.3g for R=%s' % (e, R.tolist())

    for ctx, (q, args, yes, ys) in run_paths(H, name, prog, max_paths=4):
        hyp = H.hyps_of(ctx)
        H.prove(name + '/two-exponentials', [], z3.BoolVal(len(args) == 2), replay=replay, key='C13/PF/likelihood')
        if len(args) != 2:
            continue
        e_ = [[ys[c] - yes[2 * i + c] for c in range(2)] for i in range(2)]
        quad = [z3.Sum([e_[i][a] * rat(Ri[a, b].item()) * e_[i][b] for a in range(2) for b in range(2)]) for i in range(2)]
        want = -(quad[0] - quad[1]) / 2
        d = (args[0] - args[1]) - want
        tol = z3.RealVal('1/1000000000')
        # (R^-1 enters as double-precision constants: agreement up to 1e-9 of the quadratic forms' size)
        sz = 1 + quad[0] + quad[1]
        H.prove(name + '/log(q0/q1)', hyp, z3.And(d <= tol * sz, d >= -tol * sz), replay=replay, key='C13/PF/likelihood', timeout=30)


def run(H):
    H.assumptions += ['exact real arithmetic', 'P, Q, R symmetric positive definite (Cholesky-parametrised)',
                      'pinv of an invertible matrix is its inverse (LAPACK contract)', 'PF convergence at the Monte-Carlo rate is statistical: outside', 'PF.forward variance: standard model of floating-point arithmetic (|delta| <= u per arithmetic operation; no under/overflow)']
    H.bounds += ['state dim n<=2, input dim 1, observation dim p=1 (quick) / p<=2 (thorough); one filter step (posterior from an arbitrary prior: '
                 'an inductive step over filter runs)', 'UKF k in {default 3-n, 1, 0.5}', 'UKF on nonlinear systems (positive semidefiniteness for n >= 4 with explicit k, where 3-n < 0) is NOT covered: the symbolic Cholesky factor of a 4x4 predicted covariance is beyond the solver (tried; every obligation unknown)']
    cases = [('EKF', 1, 1, 1, None), ('EKF', 2, 1, 1, None), ('EKF', 2, 1, 2, None), ('UKF', 1, 1, 1, None), ('UKF', 1, 1, 1, 1), ('UKF', 2, 1, 1, None)]
    if not H.quick:
        cases += [('UKF', 2, 1, 1, 0.5), ('UKF', 2, 1, 2, None), ('UKF', 2, 1, 1, 2)]
    for filt, n, mdim, p, k in cases:
        try:
            case_linear(H, filt, n, mdim, p, k)
        except Exception as e:
            import traceback; traceback.print_exc()
            H.engine_error('%s n=%d p=%d' % (filt, n, p), e)
    for f in ((lambda H: case_ekf_nonlinear(H, 1)), case_pf_cov, case_pf_likelihood, case_pf_forward_variance, (lambda H: case_pf_forward_variance(H, True)), case_ukf_history) + (() if H.quick else ((lambda H: case_ekf_nonlinear(H, 2)),)):
        try:
            f(H)
        except Exception as e:
            import traceback; traceback.print_exc()
            H.engine_error(getattr(f, '__name__', 'case'), e)
    return H.finish(explanation=EXPLAIN)
