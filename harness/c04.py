"""C04 - autograd through LieTensor ops gives exact left-perturbation Jacobians."""
import torch
import z3

import pypose as pp
from symx import terms as T
from .common import *
from .jac import check_jacobian, Val

EXPLAIN = ("For every hand-written autograd Function reachable through the public LieTensor API (Act on 3-/4-vectors, product, Inv, "
           "Adj, AdjT, Exp, Log, Retr, matrix, Jinvp; four groups) the real backward is executed under symx via torch.autograd.grad with a "
           "symbolic cotangent; the Jacobian it implements (extracted exactly, the gradient being linear in the cotangent) is compared "
           "entry by entry with the symbolic derivative of the engine's own forward terms under the left perturbation P(tau)@X "
           "(ordinary derivative for Euclidean/algebra inputs), modulo the unit-quaternion relations (sympy cofactors checked by z3, or "
           "direct z3). Per-Function exactness composes through the (trusted) chain rule of the autograd engine; a few depth-2/3 programs "
           "confirm that conventions compose. NaN/Inf: poison tracking on the identity / zero-vector paths.")


def builders(g):
    """name -> build(m) for group g"""
    def mk_group(m, nm, seed):
        X, xs = sym_group(m, g, nm, seed)
        return X, Val('group', X, xs, g)

    def mk_alg(m, nm, seed, sigma=1.0):
        a = rand_alg(g, seed, sigma=sigma)
        vs = m.symbolic(a, nm)
        return a, Val('vec', a, vs)

    def mk_vec(m, n, nm, seed):
        p, ps = sym_vec(m, n, nm, seed)
        return p, Val('vec', p, ps)

    G, A = GTYPE[g], ATYPE[g]
    L = lambda t: pp.LieTensor(t, ltype=G)
    La = lambda t: pp.LieTensor(t, ltype=A)
    B = {}

    def act3(m):
        X, vx = mk_group(m, 'x', 1)
        p, vp = mk_vec(m, 3, 'p', 2)
        return [vx, vp], (lambda: X.Act(p)), 'vec', None, (lambda X_, p_: L(X_).Act(p_))
    B['Act3'] = act3

    def act4(m):
        X, vx = mk_group(m, 'x', 1)
        p, vp = mk_vec(m, 4, 'h', 3)
        return [vx, vp], (lambda: X.Act(p)), 'vec', None, (lambda X_, p_: L(X_).Act(p_))
    B['Act4'] = act4

    def mul(m):
        X, vx = mk_group(m, 'x', 1)
        Y, vy = mk_group(m, 'y', 4)
        return [vx, vy], (lambda: X @ Y), 'group', g, (lambda X_, Y_: L(X_) @ L(Y_))
    B['Mul'] = mul

    def inv(m):
        X, vx = mk_group(m, 'x', 1)
        return [vx], (lambda: X.Inv()), 'group', g, (lambda X_: L(X_).Inv())
    B['Inv'] = inv

    def adj(m):
        X, vx = mk_group(m, 'x', 1)
        a, va = mk_alg(m, 'a', 5)
        return [vx, va], (lambda: X.Adj(La(a)).tensor()), 'vec', None, (lambda X_, a_: L(X_).Adj(La(a_)).tensor())
    B['Adj'] = adj

    def adjT(m):
        X, vx = mk_group(m, 'x', 1)
        a, va = mk_alg(m, 'a', 5)
        return [vx, va], (lambda: X.AdjT(La(a)).tensor()), 'vec', None, (lambda X_, a_: L(X_).AdjT(La(a_)).tensor())
    B['AdjT'] = adjT

    def matrix(m):
        X, vx = mk_group(m, 'x', 1)
        return [vx], (lambda: X.matrix()), 'vec', None, (lambda X_: L(X_).matrix())
    B['matrix'] = matrix

    def exp(m):
        a, va = mk_alg(m, 'a', 6)
        return [va], (lambda: La(a).Exp()), 'group', g, (lambda a_: La(a_).Exp())
    B['Exp'] = exp

    def log(m):
        X, vx = mk_group(m, 'x', 1)
        return [vx], (lambda: X.Log().tensor()), 'vec', None, (lambda X_: L(X_).Log().tensor())
    B['Log'] = log

    def retr(m):
        X, vx = mk_group(m, 'x', 1)
        a, va = mk_alg(m, 'a', 6)
        return [vx, va], (lambda: X.Retr(La(a))), 'group', g, (lambda X_, a_: L(X_).Retr(La(a_)))
    B['Retr'] = retr

    def jinvp(m):
        X, vx = mk_group(m, 'x', 1)
        p, vp = mk_alg(m, 'p', 7)
        t, q, s = parts(g, vx.vars)
        m.ctx.assume += [q[3] > z3.RealVal('1/10'), T.dot(q[:3], q[:3]) > z3.RealVal('1/100')]       # away from the zero rotation and from pi
        return [vx, vp], (lambda: X.Jinvp(La(p)).tensor()), 'vec', None, (lambda X_, p_: L(X_).Jinvp(La(p_)).tensor())
    B['Jinvp'] = jinvp

    # depth-2/3 compositions (conventions compose)
    def comp1(m):
        X, vx = mk_group(m, 'x', 1)
        Y, vy = mk_group(m, 'y', 4)
        p, vp = mk_vec(m, 3, 'p', 2)
        return [vx, vy, vp], (lambda: (X @ Y.Inv()).Act(p)), 'vec', None, (lambda X_, Y_, p_: (L(X_) @ L(Y_).Inv()).Act(p_))
    B['(X@Y.Inv()).Act(p)'] = comp1

    def comp2(m):
        X, vx = mk_group(m, 'x', 1)
        Y, vy = mk_group(m, 'y', 4)
        p, vp = mk_vec(m, 3, 'p', 2)
        return [vx, vy, vp], (lambda: X.Inv().Act(Y.Act(p))), 'vec', None, (lambda X_, Y_, p_: L(X_).Inv().Act(L(Y_).Act(p_)))
    B['X.Inv().Act(Y.Act(p))'] = comp2
    return B


POLY = ('Act3', 'Act4', 'Mul', 'Inv', 'Adj', 'AdjT', 'matrix', '(X@Y.Inv()).Act(p)', 'X.Inv().Act(Y.Act(p))')


def run(H):
    H.assumptions += ['exact real arithmetic', 'group inputs valid (|q|=1, s>0)', 'the autograd engine applies the chain rule correctly (trusted), '
                      'so per-Function exactness implies exactness of every well-typed composition']
    H.bounds += ['single items; programs: every Function once + two depth-3 compositions',
                 'Exp/Log Jacobians: quick = SO3/so3 family, thorough adds SE3, RxSO3 and the Sim3 truncation identities']
    only = getattr(H, 'only', None)
    for g in GROUPS:
        B = builders(g)
        for opname in POLY:
            nm = 'C04/%s/%s' % (g, opname)
            if only and only not in nm:
                continue
            if H.quick and opname.startswith('X.Inv') and g in ('RxSO3', 'Sim3'):
                continue
            try:
                check_jacobian(H, nm, B[opname], key='C04/%s.backward' % (opname if not opname.startswith('(') and not opname.startswith('X.') else 'composition'),
                               use_cert=True, timeout=(20 if H.quick else 90))
            except Exception as e:
                import traceback; traceback.print_exc()
                H.engine_error(nm, e)
    for g in (['SO3'] if H.quick else GROUPS):
        B = builders(g)
        for opname in ('Exp', 'Log', 'Retr', 'Jinvp'):
            nm = 'C04/%s/%s' % (g, opname)
            if only and only not in nm:
                continue
            try:
                check_jacobian(H, nm, B[opname], key='C04/%s.backward' % opname, use_cert=False, timeout=(30 if H.quick else 120),
                               track_poison=True)
            except Exception as e:
                import traceback; traceback.print_exc()
                H.engine_error(nm, e)
    return H.finish(explanation=EXPLAIN)
