"""C04 - autograd through LieTensor ops gives exact left-perturbation Jacobians."""
import torch
import z3

import pypose as pp
from symx import terms as T
from .common import *
from .jac import check_jacobian, Val

EXPLAIN = ("For every hand-written autograd Function reachable through the public LieTensor API (Act on 3-/4-vectors, product, Inv, "
           "Adj, AdjT, Exp, Log, Retr, matrix, Jinvp; four groups) the real backward is executed under symx via torch.autograd.grad with a "
           "symbolic cotangent; the Jacobian it implements (extracted exactly, the gradient being linear in the cotangent) is compared "
           "entry by entry with the symbolic derivative of the engine's own forward terms under the left perturbation P(tau)@X "
           "(ordinary derivative for Euclidean/algebra inputs), modulo the unit-quaternion relations (sympy cofactors checked by z3, or "
           "direct z3). Per-Function exactness composes through the (trusted) chain rule of the autograd engine; a few depth-2/3 programs "
           "confirm that conventions compose. NaN/Inf: poison tracking on the identity / zero-vector paths.")


def builders(g):
    """name -> build(m) for group g"""
    def mk_group(m, nm, seed):
        X, xs = sym_group(m, g, nm, seed)
        return X, Val('group', X, xs, g)

    def mk_alg(m, nm, seed, sigma=1.0):
        a = rand_alg(g, seed, sigma=sigma)
        vs = m.symbolic(a, nm)
        return a, Val('vec', a, vs)

    def mk_vec(m, n, nm, seed):
        p, ps = sym_vec(m, n, nm, seed)
        return p, Val('vec', p, ps)

    G, A = GTYPE[g], ATYPE[g]
    L = lambda t: pp.LieTensor(t, ltype=G)
    La = lambda t: pp.LieTensor(t, ltype=A)
    B = {}

    def act3(m):
        X, vx = mk_group(m, 'x', 1)
        p, vp = mk_vec(m, 3, 'p', 2)
        return [vx, vp], (lambda: X.Act(p)), 'vec', None, (lambda X_, p_: L(X_).Act(p_))
    B['Act3'] = act3

    def act4(m):
        X, vx = mk_group(m, 'x', 1)
        p, vp = mk_vec(m, 4, 'h', 3)
        return [vx, vp], (lambda: X.Act(p)), 'vec', None, (lambda X_, p_: L(X_).Act(p_))
    B['Act4'] = act4

    def mul(m):
        X, vx = mk_group(m, 'x', 1)
        Y, vy = mk_group(m, 'y', 4)
        return [vx, vy], (lambda: X @ Y), 'group', g, (lambda X_, Y_: L(X_) @ L(Y_))
    B['Mul'] = mul

    def inv(m):
        X, vx = mk_group(m, 'x', 1)
        return [vx], (lambda: X.Inv()), 'group', g, (lambda X_: L(X_).Inv())
    B['Inv'] = inv

    def adj(m):
        X, vx = mk_group(m, 'x', 1)
        a, va = mk_alg(m, 'a', 5)
        return [vx, va], (lambda: X.Adj(La(a)).tensor()), 'vec', None, (lambda X_, a_: L(X_).Adj(La(a_)).tensor())
    B['Adj'] = adj

    def adjT(m):
        X, vx = mk_group(m, 'x', 1)
        a, va = mk_alg(m, 'a', 5)
        return [vx, va], (lambda: X.AdjT(La(a)).tensor()), 'vec', None, (lambda X_, a_: L(X_).AdjT(La(a_)).tensor())
    B['AdjT'] = adjT

    def matrix(m):
        X, vx = mk_group(m, 'x', 1)
        return [vx], (lambda: X.matrix()), 'vec', None, (lambda X_: L(X_).matrix())
    B['matrix'] = matrix

    def exp(m):
        a, va = mk_alg(m, 'a', 6)
        return [va], (lambda: La(a).Exp()), 'group', g, (lambda a_: La(a_).Exp())
    B['Exp'] = exp

    def log(m):
        X, vx = mk_group(m, 'x', 1)
        return [vx], (lambda: X.Log().tensor()), 'vec', None, (lambda X_: L(X_).Log().tensor())
    B['Log'] = log

    def retr(m):
        X, vx = mk_group(m, 'x', 1)
        a, va = mk_alg(m, 'a', 6)
        return [vx, va], (lambda: X.Retr(La(a))), 'group', g, (lambda X_, a_: L(X_).Retr(La(a_)))
    B['Retr'] = retr

    def jinvp(m):
        X, vx = mk_group(m, 'x', 1)
        p, vp = mk_alg(m, 'p', 7)
        t, q, s = parts(g, vx.vars)
        m.ctx.assume += [q[3] > z3.RealVal('1/10'), T.dot(q[:3], q[:3]) > z3.RealVal('1/100')]       # away from the zero rotation and from pi
        return [vx, vp], (lambda: X.Jinvp(La(p)).tensor()), 'vec', None, (lambda X_, p_: L(X_).Jinvp(La(p_)).tensor())
    B['Jinvp'] = jinvp

    # depth-2/3 compositions (conventions compose)
    def comp1(m):
        X, vx = mk_group(m, 'x', 1)
        Y, vy = mk_group(m, 'y', 4)
        p, vp = mk_vec(m, 3, 'p', 2)
        return [vx, vy, vp], (lambda: (X @ Y.Inv()).Act(p)), 'vec', None, (lambda X_, Y_, p_: (L(X_) @ L(Y_).Inv()).Act(p_))
    B['(X@Y.Inv()).Act(p)'] = comp1

    def comp2(m):
        X, vx = mk_group(m, 'x', 1)
        Y, vy = mk_group(m, 'y', 4)
        p, vp = mk_vec(m, 3, 'p', 2)
        return [vx, vy, vp], (lambda: X.Inv().Act(Y.Act(p))), 'vec', None, (lambda X_, Y_, p_: L(X_).Inv().Act(L(Y_).Act(p_)))
    B['X.Inv().Act(Y.Act(p))'] = comp2
    return B


def case_rounding_Q(H, f32=False):
    """standard-model rounding analysis of the translation-rotation coupling block Q of the se3 left Jacobian, observed as the gradient of
    the x-translation of se3([1,2,3, 0.6 theta, 0, 0.8 theta]).Exp() with respect to its input (row 0 of [Jl(phi) | Q(tau, phi)]): for
    every theta in (0, 1/2] and all rounding errors the gradient stays within 100 sqrt(eps) of its exact-arithmetic value"""
    from symx.engine import rat
    from symx.terms import subst
    name = 'C04/rounding/se3_Exp.backward(Q)%s' % ('/float32' if f32 else '')
    dt = torch.float32 if f32 else DT
    eps = torch.finfo(dt).eps
    u = rat(eps) / 2
    tolf = 100 * eps ** 0.5

    def grad_real(th):
        x = pp.se3(torch.tensor([1., 2., 3., 0.6 * th, 0., 0.8 * th], dtype=dt)).requires_grad_(True)
        x.Exp().tensor()[0].backward()
        return x.grad.double()

    def prog(m):
        m.ctx.round_u = u
        m.ctx.split_bool_casts = True
        xv = torch.tensor([1., 2., 3., 0.6e-3, 0., 0.8e-3], dtype=dt)
        th = z3.Real('theta')
        m.ctx.env['theta'] = 1e-3
        m.set_terms(xv, [None, None, None, th * rat(0.6), None, th * rat(0.8)])
        m.ctx.assume += [th > 0, th <= z3.RealVal('1/2')]
        x = pp.se3(xv).requires_grad_(True)
        out = x.Exp().tensor()[0]
        g, = torch.autograd.grad(out, [x])
        return m.full_terms(g.tensor() if isinstance(g, pp.LieTensor) else g), th

    def replay(model):
        import mpmath
        mpmath.mp.dps = 60
        th0 = abs(float(model.get('theta', 1e-12))) or 1e-12
        cand = [th0 * f for f in (1.0, 0.3, 3.0, 0.1, 10.0)] + [10.0 ** (-k) for k in range(2, 16)]
        worst, wt = 0.0, None
        for th in cand:
            if not (eps < th <= 0.5):
                continue
            ph = [mpmath.mpf(0.6) * th, mpmath.mpf(0), mpmath.mpf(0.8) * th]
            # exact row 0 of [Jl | Q] from the power series of the 6x6 left Jacobian  J = sum_n ad^n / (n+1)!
            ad = mpmath.zeros(6, 6)
            sk = lambda v: mpmath.matrix([[0, -v[2], v[1]], [v[2], 0, -v[0]], [-v[1], v[0], 0]])
            P_, T_ = sk(ph), sk([mpmath.mpf(1), mpmath.mpf(2), mpmath.mpf(3)])
            for i in range(3):
                for j in range(3):
                    ad[i, j] = P_[i, j]; ad[i + 3, j + 3] = P_[i, j]; ad[i, j + 3] = T_[i, j]
            J, term = mpmath.eye(6), mpmath.eye(6)
            for n in range(1, 30):
                term = term * ad / (n + 1)
                J = J + term
            got = grad_real(float(th))
            e = max(abs(float(J[0, j]) - got[j].item()) for j in range(6))
            if e > worst:
                worst, wt = e, th
        return worst > tolf * 4.0, 'd t_x / d xi of se3([1,2,3, 0.6t, 0, 0.8t]).Exp() deviates from the exact left Jacobian by %.3g at t=%.3g (allowed %.3g)' % (worst, wt or 0, tolf * 4.0)

    for ctx, (g, th) in run_paths(H, name, prog, max_paths=16, f32=f32):
        pn = H.paths
        hyp = H.hyps_of(ctx) + [z3.And(d <= u, d >= -u) for d in ctx.deltas]
        zero = [(d, z3.RealVal(0)) for d in ctx.deltas]
        tol = rat(float(tolf))
        ab = lambda e: z3.If(e >= 0, e, -e)
        for j in range(3, 6):
            ex = subst(g[j], zero)
            H.prove('%s/path%d/rounding-error(grad[%d])<=100sqrt(eps)(1+|grad|)' % (name, pn, j), hyp, ab(g[j] - ex) <= tol * (1 + ab(ex)), replay=replay,
                    key='C04/rounding/calcQ', timeout=(30 if H.quick else 120))
            # the same bound at fixed angles (all rounding errors at that angle): with theta a constant the query is polynomial in the
            # rounding variables only, which is where a cancellation shows up as a satisfiable instance within the cap
            for v in ('1/100000000000000', '1/1000000000000', '1/10000000000', '1/100000000', '1/1000000', '1/10000', '1/100'):
                if ctx.feasible([th == z3.RealVal(v)]) == 'unsat':
                    continue
                H.prove('%s/path%d/theta=%s/rounding-error(grad[%d])' % (name, pn, v, j), hyp + [th == z3.RealVal(v)], ab(g[j] - ex) <= tol * (1 + ab(ex)),
                        replay=replay, key='C04/rounding/calcQ', timeout=(20 if H.quick else 60))
        H.reach('%s/path%d/reach' % (name, pn), hyp)
        H.notes.append('%s path %d: %d rounding variables' % (name, pn, len(ctx.deltas)))


def case_size_split(H, g, N=600):
    """one symbolic element acting on a LARGE cloud of concrete points (size-dependent fast paths): the gradient with respect to the
    element for all N points must equal the sum of the gradients for the two halves (the loss sum_i <g_i, X.Act(p_i)> is additive in the
    points), each computed by the real backward; the halves are below any plausible size threshold, where C04's other cases apply"""
    name = 'C04/%s/Act3/N=%d-vs-two-halves' % (g, N)
    gen = torch.Generator().manual_seed(77)
    P = torch.randn(N, 3, dtype=DT, generator=gen)
    G = torch.randn(N, 3, dtype=DT, generator=gen)

    def grads(X):
        out = []
        for sl in (slice(0, N), slice(0, N // 2), slice(N // 2, N)):
            Xl = X.detach().clone().requires_grad_(True) if not isinstance(X, tuple) else None
            y = Xl.Act(P[sl])
            g_, = torch.autograd.grad(y, [Xl], grad_outputs=G[sl])
            out.append(g_.tensor() if isinstance(g_, pp.LieTensor) else g_)
        return out

    def prog(m):
        X, xs = sym_group(m, g, 'x', 78)
        outs = []
        for sl in (slice(0, N), slice(0, N // 2), slice(N // 2, N)):
            Xl = pp.LieTensor(X.tensor().clone(), ltype=GTYPE[g])
            m.set_terms(Xl.tensor(), xs)
            Xl.requires_grad_(True)
            y = Xl.Act(P[sl])
            g_, = torch.autograd.grad(y, [Xl], grad_outputs=G[sl])
            outs.append(m.full_terms(g_.tensor() if isinstance(g_, pp.LieTensor) else g_))
        return outs, xs

    def replay(model):
        xv = normalize_group(g, tensor_from_env(['x%d' % i for i in range(GDIM[g])], model))
        if float(xv.abs().sum()) == 0 or not torch.isfinite(xv).all():
            xv = rand_group(g, 78).tensor()
        a, b, c = grads(pp.LieTensor(xv, ltype=GTYPE[g]))
        e = (a - (b + c)).abs().max().item() / (1 + a.abs().max().item())
        return e > 1e-9, 'gradient of sum_i <g_i, X.Act(p_i)> over %d points differs from the sum over its two halves by %.3g (relative)' % (N, e)

    for ctx, (outs, xs) in run_paths(H, name, prog, max_paths=4):
        hyp = H.hyps_of(ctx)
        full, h1, h2 = outs
        for j in range(len(full)):
            H.same('%s/grad[%d]' % (name, j), hyp, full[j], h1[j] + h2[j], ctx, replay=replay, key='C04/Act.backward/size', timeout=20)


POLY = ('Act3', 'Act4', 'Mul', 'Inv', 'Adj', 'AdjT', 'matrix', '(X@Y.Inv()).Act(p)', 'X.Inv().Act(Y.Act(p))')


def run(H):
    H.assumptions += ['exact real arithmetic', 'group inputs valid (|q|=1, s>0)', 'the autograd engine applies the chain rule correctly (trusted), '
                      'so per-Function exactness implies exactness of every well-typed composition']
    H.bounds += ['single items; programs: every Function once + two depth-3 compositions',
                 'Exp/Log/Retr/Jinvp Jacobians: quick = SO3/so3 family, thorough adds SE3 and RxSO3 (the Sim3 series-truncation identities are not attempted: every obligation came back unknown within any affordable cap)']
    only = getattr(H, 'only', None)
    for g in GROUPS:
        B = builders(g)
        for opname in POLY:
            nm = 'C04/%s/%s' % (g, opname)
            if only and only not in nm:
                continue
            if H.quick and opname.startswith('X.Inv') and g in ('RxSO3', 'Sim3'):
                continue
            try:
                check_jacobian(H, nm, B[opname], key='C04/%s.backward' % (opname if not opname.startswith('(') and not opname.startswith('X.') else 'composition'),
                               use_cert=True, timeout=(20 if H.quick else 90))
            except Exception as e:
                import traceback; traceback.print_exc()
                H.engine_error(nm, e)
    for g in (['SO3'] if H.quick else ['SO3', 'SE3', 'RxSO3']):
        B = builders(g)
        for opname in ('Exp', 'Log', 'Retr', 'Jinvp'):
            nm = 'C04/%s/%s' % (g, opname)
            if only and only not in nm:
                continue
            try:
                check_jacobian(H, nm, B[opname], key='C04/%s.backward' % opname, use_cert=False, timeout=(30 if H.quick else 45),
                               track_poison=True)
            except Exception as e:
                import traceback; traceback.print_exc()
                H.engine_error(nm, e)
    for g in (('SE3',) if H.quick else GROUPS):
        if only and only not in 'size':
            continue
        try:
            case_size_split(H, g)
        except Exception as e:
            import traceback; traceback.print_exc()
            H.engine_error('size-split/' + g, e)
    for f32 in ((False,) if H.quick else (False, True)):
        if only and only not in 'rounding':
            continue
        try:
            case_rounding_Q(H, f32)
        except Exception as e:
            import traceback; traceback.print_exc()
            H.engine_error('rounding-Q', e)
    return H.finish(explanation=EXPLAIN)
