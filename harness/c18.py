"""C18 - point-cloud filters and camera helpers match their brute-force definitions."""
import itertools

import torch
import z3

import pypose as pp
from symx import terms as T
from symx.engine import rat
from .common import *

EXPLAIN = ("knn, nbr_filter, voxel_filter, knn_filter, random_filter run under symx on clouds of N<=3 (thorough 4) symbolic points in 1-2 "
           "dimensions (+ a feature channel); topk/sort/unique/mask indexing are decisions, every feasible ordering/partition is a "
           "path. Per path the outputs are compared with brute-force definitions written over the symbolic points (sets of k smallest "
           "distances, neighbour counts, voxel membership by floor division, centroids, neighbour means). Because the points are "
           "symbolic and unordered, permutation equivariance is implied. Camera helpers: pixel2point(point2pixel) = id, reprojerr = 0 on "
           "projected pixels, homo2cart(cart2homo) = id as rational identities.")


def ab(x):
    return z3.If(x >= 0, x, -x)


def dist_term(ctx, a, b, ord_):
    d = [x - y for x, y in zip(a, b)]
    if ord_ == 2:
        return ctx.tfun('sqrt', z3.Sum([x * x for x in d]))
    if ord_ == 1:
        return z3.simplify(z3.Sum([ab(x) for x in d]))
    acc = ab(d[0])
    for x in d[1:]:
        acc = z3.If(ab(x) > acc, ab(x), acc)
    return z3.simplify(acc)


def sym_cloud(m, N, D, name, seed, assume_distinct=True):
    gen = torch.Generator().manual_seed(seed)
    P = torch.randn(N, D, dtype=DT, generator=gen)
    ps = m.symbolic(P, name)
    return P, [ps[i * D:(i + 1) * D] for i in range(N)]


def case_knn(H, N1, N2, D, k, ord_):
    name = 'C18/knn/N1=%d,N2=%d,D=%d,k=%d,ord=%s' % (N1, N2, D, k, ord_)

    def prog(m):
        A, a = sym_cloud(m, N1, D, 'a', 1)
        B, b = sym_cloud(m, N2, D, 'b', 2)
        # ties excluded for index claims: all distances from one reference point are pairwise distinct
        for i in range(N1):
            ds = [dist_term(m.ctx, a[i], b[j], ord_) for j in range(N2)]
            for u, v in itertools.combinations(ds, 2):
                m.ctx.assume.append(u != v)
        vals, idx = pp.knn(A, B, k=k, ord=ord_)
        return m.full_terms(vals), idx.tolist(), a, b

    def replay(model):
        A = tensor_from_env(['a%d' % i for i in range(N1 * D)], model).view(N1, D)
        B = tensor_from_env(['b%d' % i for i in range(N2 * D)], model).view(N2, D)
        vals, idx = pp.knn(A, B, k=k, ord=ord_)
        dm = torch.stack([torch.stack([torch.linalg.norm(A[i] - B[j], ord=ord_) for j in range(N2)]) for i in range(N1)])
        ref, ridx = torch.sort(dm, dim=-1)
        e = (vals - ref[:, :k]).abs().max().item()
        gaps = (ref[:, 1:] - ref[:, :-1]).min().item() if N2 > 1 else 1.0
        bad = e > 1e-9 or (gaps > 1e-6 and not torch.equal(idx, ridx[:, :k]))
        return bad, 'knn distances differ from brute force by %.3g (indices %s vs %s)' % (e, idx.tolist(), ridx[:, :k].tolist())

    for ctx, (vals, idx, a, b) in run_paths(H, name, prog, max_paths=64, max_decisions=30):
        hyp = H.hyps_of(ctx)
        pn = H.paths
        goals = []
        for i in range(N1):
            dists = [dist_term(ctx, a[i], b[j], ord_) for j in range(N2)]
            chosen = idx[i]
            for c, j in enumerate(chosen):
                goals.append(vals[i * k + c] == dists[j])                       # value is the distance to the reported index
                if c + 1 < len(chosen):
                    goals.append(dists[j] <= dists[chosen[c + 1]])              # ascending
            for j in range(N2):
                if j not in chosen:
                    goals.append(dists[j] >= dists[chosen[-1]])                 # nothing closer was left out
            goals.append(z3.BoolVal(len(set(chosen)) == len(chosen)))
        # the ordering facts follow from the path's own comparison decisions: hypotheses = assumptions + path condition only
        # (the abstraction variables of the distances stay opaque, so this is linear arithmetic)
        H.prove('%s/path%d' % (name, pn), list(ctx.assume) + list(ctx.pc), z3.And(goals), replay=replay, key='C18/knn', timeout=20)


def case_nbr_filter(H, N, D, nbr, radius, ord_, feat):
    name = 'C18/nbr_filter/N=%d,D=%d,nbr=%d,r=%s,ord=%s,feat=%d' % (N, D, nbr, radius, ord_, feat)

    def prog(m):
        P, p = sym_cloud(m, N, D + feat, 'p', 3)
        out, mask = pp.nbr_filter(P, nbr, radius, pdim=D, ord=ord_, return_mask=True)
        return m.full_terms(out), m.bools(mask), p

    def replay(model):
        P = tensor_from_env(['p%d' % i for i in range(N * (D + feat))], model).view(N, D + feat)
        out, mask = pp.nbr_filter(P, nbr, radius, pdim=D, ord=ord_, return_mask=True)
        keep = []
        for i in range(N):
            c = sum(1 for j in range(N) if j != i and torch.linalg.norm(P[i, :D] - P[j, :D], ord=ord_) <= radius)
            keep.append(c >= nbr)
        bad = keep != mask.tolist() or not torch.equal(out, P[torch.tensor(keep)])
        return bad, 'nbr_filter kept %s, brute force keeps %s' % (mask.tolist(), keep)

    for ctx, (out, mask, p) in run_paths(H, name, prog, max_paths=64, max_decisions=30):
        hyp = H.hyps_of(ctx)
        pn = H.paths
        goals = []
        r = rat(radius)
        kept_rows = []
        for i in range(N):
            cnt = z3.Sum([z3.If(dist_term(ctx, p[i][:D], p[j][:D], ord_) <= r, 1, 0) for j in range(N) if j != i])
            goals.append(z3.BoolVal(bool(mask[i])) == (cnt >= nbr))
            if mask[i]:
                kept_rows += p[i]
        goals.append(z3.BoolVal(len(out) == len(kept_rows)))
        if len(out) == len(kept_rows):
            goals += [a == b for a, b in zip(out, kept_rows)]
        H.prove('%s/path%d' % (name, pn), H.hyps_of(ctx), z3.And(goals), replay=replay, key='C18/nbr_filter', timeout=20)


def case_voxel(H, N, D, voxel, feat):
    name = 'C18/voxel_filter/N=%d,D=%d,voxel=%s,feat=%d' % (N, D, voxel, feat)

    def prog(m):
        P, p = sym_cloud(m, N, D + feat, 'p', 4)
        out = pp.voxel_filter(P, list(voxel))
        return m.full_terms(out), tuple(out.shape), p

    def brute(P):
        mn = P[:, :D].min(0).values
        key = ((P[:, :D] - mn) / torch.tensor(voxel, dtype=DT)).floor().long()
        groups = {}
        for i in range(N):
            groups.setdefault(tuple(key[i].tolist()), []).append(i)
        return [P[torch.tensor(g)].mean(0) for _, g in sorted(groups.items())]

    def replay(model):
        P = tensor_from_env(['p%d' % i for i in range(N * (D + feat))], model).view(N, D + feat)
        out = pp.voxel_filter(P, list(voxel))
        ref = torch.stack(brute(P))
        if out.shape != ref.shape:
            return True, 'voxel_filter returned %d voxels, brute force %d' % (out.shape[0], ref.shape[0])
        e = (out - ref).abs().max().item()
        return e > 1e-9, 'voxel centroids differ from brute force by %.3g' % e

    for ctx, (out, shape, p) in run_paths(H, name, prog, max_paths=64, max_decisions=30):
        pn = H.paths
        W = D + feat
        mins = []
        for c in range(D):
            acc = p[0][c]
            for i in range(1, N):
                acc = z3.If(p[i][c] < acc, p[i][c], acc)
            mins.append(acc)
        vox = [[z3.ToInt((p[i][c] - mins[c]) / rat(voxel[c])) for c in range(D)] for i in range(N)]
        same = lambda i, j: z3.And([vox[i][c] == vox[j][c] for c in range(D)])
        nout = shape[0]
        goals = []
        # every output row is the centroid of a full voxel class, and every point's class centroid appears among the outputs
        rows = [out[r * W:(r + 1) * W] for r in range(nout)]
        for i in range(N):
            cnt = z3.Sum([z3.If(same(i, j), 1, 0) for j in range(N)])
            cen = [z3.Sum([z3.If(same(i, j), p[j][c], 0) for j in range(N)]) / z3.ToReal(cnt) for c in range(W)]
            goals.append(z3.Or([z3.And([rows[r][c] == cen[c] for c in range(W)]) for r in range(nout)]) if nout else z3.BoolVal(False))
        # number of outputs = number of occupied voxels
        nclass = z3.Sum([z3.If(z3.And([z3.Not(same(i, j)) for j in range(i)]) if i else z3.BoolVal(True), 1, 0) for i in range(N)])
        goals.append(nclass == nout)
        H.prove('%s/path%d' % (name, pn), H.hyps_of(ctx), z3.And(goals), replay=replay, key='C18/voxel_filter', timeout=30)


def case_voxel_random(H, N, D, voxel, feat):
    """voxel_filter(random=True): one row per occupied voxel (same count as classes), each row an input point, the selected points
    lie in pairwise different voxels"""
    name = 'C18/voxel_filter(random)/N=%d,D=%d,voxel=%s,feat=%d' % (N, D, voxel, feat)
    W = D + feat

    def brute_classes(P):
        mn = P[:, :D].min(0).values
        key = ((P[:, :D] - mn) / torch.tensor(voxel, dtype=DT)).to(torch.int64)
        return [tuple(k.tolist()) for k in key]

    def replay(model):
        P = tensor_from_env(['p%d' % i for i in range(N * W)], model).view(N, W)
        worst = None
        # the clouds the solver proposes plus the degenerate ones (all points in one voxel, a single point)
        for Q in (P, P[:1], P * 0 + P[:1] + torch.linspace(0, 1e-3, N, dtype=DT).view(N, 1)):
            cls = brute_classes(Q)
            try:
                torch.manual_seed(0)
                out = pp.voxel_filter(Q, list(voxel), random=True)
            except Exception as e:
                return True, 'voxel_filter(random=True) raised %s: %s on a cloud of %d point(s) in %d voxel(s)' % (type(e).__name__, str(e)[:60], Q.shape[0], len(set(cls)))
            if tuple(out.shape) != (len(set(cls)), W):
                return True, 'voxel_filter(random=True) returned shape %s for %d occupied voxel(s) of a (%d, %d) cloud' % (tuple(out.shape), len(set(cls)), Q.shape[0], W)
            src = [[i for i in range(Q.shape[0]) if torch.equal(Q[i], out[r])] for r in range(out.shape[0])]
            if any(not s_ for s_ in src) or len({cls[s_[0]] for s_ in src}) != out.shape[0]:
                worst = 'rows are not members of pairwise different voxels'
        return worst is not None, 'voxel_filter(random=True): %s' % worst

    def prog(m):
        P, p = sym_cloud(m, N, W, 'p', 4)
        torch.manual_seed(0)
        out = pp.voxel_filter(P, list(voxel), random=True)
        return m.full_terms(out), tuple(out.shape), p

    def on_raise(ctx, e):
        H.absorb(ctx)
        ok, det = replay(dict(ctx.env))
        if ok:
            H.violation('C18/voxel_filter(random)', '%s: %s' % (name, det), {'case': name, 'model': {k: v for k, v in ctx.env.items() if isinstance(v, float)}})
        else:
            H.prove('%s/raising-path%d-infeasible' % (name, H.paths), H.hyps_of(ctx), z3.BoolVal(False), replay=replay, key='C18/voxel_filter(random)', timeout=20)

    for ctx, (out, shape, p) in run_paths(H, name, prog, max_paths=64, max_decisions=30, raised=on_raise):
        pn = H.paths
        mins = []
        for c in range(D):
            acc = p[0][c]
            for i in range(1, N):
                acc = z3.If(p[i][c] < acc, p[i][c], acc)
            mins.append(acc)
        vox = [[z3.ToInt((p[i][c] - mins[c]) / rat(voxel[c])) for c in range(D)] for i in range(N)]
        same = lambda i, j: z3.And([vox[i][c] == vox[j][c] for c in range(D)])
        nclass = z3.Sum([z3.If(z3.And([z3.Not(same(i, j)) for j in range(i)]) if i else z3.BoolVal(True), 1, 0) for i in range(N)])
        ok_shape = len(shape) == 2 and shape[1] == W
        H.prove('%s/path%d/shape' % (name, pn), [], z3.BoolVal(bool(ok_shape)), replay=replay, key='C18/voxel_filter(random)')
        if not ok_shape:
            continue
        nout = shape[0]
        rows = [out[r * W:(r + 1) * W] for r in range(nout)]
        # which input row each output row is (syntactically: selection only moves data)
        src = []
        for r in range(nout):
            cand = [i for i in range(N) if all(z3.is_true(z3.simplify(rows[r][c] == p[i][c])) for c in range(W))]
            src.append(cand[0] if cand else None)
        H.prove('%s/path%d/rows-are-input-points' % (name, pn), [], z3.BoolVal(all(s_ is not None for s_ in src)), replay=replay, key='C18/voxel_filter(random)')
        goals = [nclass == nout]
        if all(s_ is not None for s_ in src):
            goals += [z3.Not(same(src[a], src[b])) for a in range(nout) for b in range(a)]
        H.prove('%s/path%d/one-member-per-occupied-voxel' % (name, pn), H.hyps_of(ctx), z3.And(goals), replay=replay, key='C18/voxel_filter(random)', timeout=30)


def case_knn_filter(H, N, D, k, radius, feat, ord_=2):
    name = 'C18/knn_filter/N=%d,D=%d,k=%d,r=%s,feat=%d,ord=%s' % (N, D, k, radius, feat, ord_)

    def prog(m):
        P, p = sym_cloud(m, N, D + feat, 'p', 5)
        for i in range(N):
            ds = [dist_term(m.ctx, p[i][:D], p[j][:D], ord_) for j in range(N) if j != i]
            for u, v in itertools.combinations(ds, 2):
                m.ctx.assume.append(u != v)
            for u in ds:
                m.ctx.assume.append(u > 0)
        out = pp.knn_filter(P, k, pdim=D, radius=radius, ord=ord_)
        return m.full_terms(out), tuple(out.shape), p

    def brute(P):
        res = []
        for i in range(N):
            d = torch.stack([torch.linalg.norm(P[i, :D] - P[j, :D], ord=ord_) for j in range(N)])
            if radius is not None and (d <= radius).sum().item() - 1 < k:
                continue
            nn_ = torch.argsort(d)[:k + 1]
            res.append(P[nn_].mean(0))
        return torch.stack(res) if res else torch.zeros(0, P.shape[1], dtype=DT)

    def replay(model):
        P = tensor_from_env(['p%d' % i for i in range(N * (D + feat))], model).view(N, D + feat)
        try:
            out = pp.knn_filter(P, k, pdim=D, radius=radius, ord=ord_)
        except Exception as e:
            return True, 'knn_filter raised %s: %s' % (type(e).__name__, str(e)[:80])
        ref = brute(P)
        if out.shape != ref.shape:
            return True, 'knn_filter kept %d points, brute force keeps %d (points %s)' % (out.shape[0], ref.shape[0], P.tolist())
        e = (out - ref).abs().max().item() if ref.numel() else 0.0
        return e > 1e-9, 'knn_filter means differ from brute force by %.3g (points %s)' % (e, P.tolist())

    def on_raise(ctx, e):
        H.absorb(ctx)
        # find a concrete cloud on this path and replay
        s = z3.Solver()
        s.set('timeout', 5000)
        s.add(H.hyps_of(ctx))
        if str(s.check()) == 'sat':
            from symx.solve import _model_dict
            ok, det = replay(_model_dict(z3, s.model()))
            if ok:
                H.violation('C18/knn_filter/%s' % ('radius' if radius is not None else 'plain'), '%s: %s' % (name, det), {'case': name})
                return
        H.engine_error(name, e)

    for ctx, (out, shape, p) in run_paths(H, name, prog, max_paths=128, max_decisions=40, raised=on_raise):
        pn = H.paths
        W = D + feat
        goals = []
        exp_rows = []
        for i in range(N):
            dists = [dist_term(ctx, p[i][:D], p[j][:D], ord_) for j in range(N)]
            if radius is not None:
                cnt = z3.Sum([z3.If(dists[j] <= rat(radius), 1, 0) for j in range(N) if j != i])
                kept = cnt >= k
            else:
                kept = z3.BoolVal(True)
            # mean of itself and its k nearest neighbours: sum over j of [rank(j) <= k] p_j / (k+1), rank = #closer points
            mean = []
            for c in range(W):
                tot = z3.Sum([z3.If(z3.Sum([z3.If(dists[l] < dists[j], 1, 0) for l in range(N) if l != j]) <= k, p[j][c], 0) for j in range(N)])
                mean.append(tot / (k + 1))
            exp_rows.append((kept, mean))
        # outputs are exactly the expected rows of the kept points, in order
        nout = shape[0]
        rows = [out[r * W:(r + 1) * W] for r in range(nout)]
        nkept = z3.Sum([z3.If(kp, 1, 0) for kp, _ in exp_rows])
        goals.append(nkept == nout)
        for i, (kp, mean) in enumerate(exp_rows):
            before = z3.Sum([z3.If(exp_rows[j][0], 1, 0) for j in range(i)]) if i else z3.IntVal(0)
            for r in range(nout):
                goals.append(z3.Implies(z3.And(kp, before == r), z3.And([rows[r][c] == mean[c] for c in range(W)])))
        H.prove('%s/path%d' % (name, pn), H.hyps_of(ctx), z3.And(goals), replay=replay,
                key='C18/knn_filter/%s' % ('radius' if radius is not None else 'plain'), timeout=30)


def case_random_filter(H, N, D, num):
    name = 'C18/random_filter/N=%d,D=%d,num=%d' % (N, D, num)

    def prog(m):
        P, p = sym_cloud(m, N, D, 'p', 6)
        out = pp.random_filter(P, num)
        return m.full_terms(out), p

    for ctx, (out, p) in run_paths(H, name, prog):
        rows = [out[r * D:(r + 1) * D] for r in range(num)]
        # each output row is syntactically one input row, all from distinct input indices
        src = []
        for r in rows:
            hit = [i for i in range(N) if all(a.eq(b) for a, b in zip(r, p[i]))]
            src.append(hit[0] if hit else None)
        ok = all(s is not None for s in src) and len(set(src)) == num and len(out) == num * D
        H.prove(name, [], z3.BoolVal(ok), key='C18/random_filter',
                replay=lambda model: (True, 'random_filter rows are not %d distinct input rows: sources %s' % (num, src)))


def case_camera(H, npts, with_ext):
    name = 'C18/camera/npts=%d/extrinsics=%s' % (npts, with_ext)
    extra = {}

    def replay(model):
        P = tensor_from_env(['p%d' % i for i in range(3 * npts)], model).view(npts, 3)
        K = tensor_from_env(['k%d' % i for i in range(9)], model).view(3, 3)
        if float(K.abs().sum()) == 0 or float(P.abs().sum()) == 0:
            P = torch.rand(npts, 3, dtype=DT) + 1
            K = torch.tensor([[2.0, 0.3, 4.5], [0, 2.0, 4.5], [0, 0, 1]], dtype=DT)
        K = K.clone(); K[1, 0] = 0; K[2, 0] = 0; K[2, 1] = 0; K[2, 2] = 1
        if K[0, 0] == 0 or K[1, 1] == 0 or (P[:, 2].abs() < torch.finfo(DT).tiny).any():
            return False, 'outside the assumptions'
        d = torch.tensor([float(model.get('d0', 0.7)), float(model.get('d1', -0.7))], dtype=DT)
        px = pp.point2pixel(P, K)
        back = pp.pixel2point(px, P[:, 2], K)
        # relative to the size of the point itself (a tiny point is still a point), with the conditioning of K as allowance for round-off
        cond = 1 + (K[0, 2] / K[0, 0]).abs().item() + (K[1, 2] / K[1, 1]).abs().item() + (K[0, 1] / K[0, 0]).abs().item()
        e1 = ((back - P).abs().amax(-1) / P.abs().amax(-1)).max().item() / cond
        es_ = pp.reprojerr(P, px + d, K, reduction='sum')
        e2 = ((es_ - d.abs().sum()).abs() / (1 + px.abs().amax(-1))).max().item()
        bad = e1 > 1e-9 or e2 > 1e-9 * (1 + d.abs().sum().item())
        return bad, ('pixel2point(point2pixel(p)) differs from p by %.3g (relative) for K=%s; reprojerr(sum) of pixels displaced by %s is %s (documented: L1 norm %.3g)'
                     % (e1, K.tolist(), d.tolist(), es_.tolist()[:2], d.abs().sum().item()))

    def prog(m):
        gen = torch.Generator().manual_seed(8)
        P = torch.randn(npts, 3, dtype=DT, generator=gen) + torch.tensor([0, 0, 4.0], dtype=DT)
        ps = m.symbolic(P, 'p')
        Kt = torch.tensor([[300.0, 0, 160], [0, 310.0, 120], [0, 0, 1]], dtype=DT)
        ks = m.symbolic(Kt, 'k')
        # a pinhole intrinsics matrix [[fx, s, cx], [0, fy, cy], [0, 0, 1]] with ANY skew s and non-zero focal lengths
        m.ctx.assume += [ks[3] == 0, ks[6] == 0, ks[7] == 0, ks[8] == 1, ks[0] != 0, ks[4] != 0]
        tiny = rat(torch.finfo(DT).tiny)
        ext = None
        es = None
        if with_ext:
            ext, es = sym_group(m, 'SE3', 'e', 9)
        px = pp.point2pixel(P, Kt, ext)
        # camera-frame points (oracle side: textbook matrix)
        if with_ext:
            M = mat4('SE3', es)
            cam = [T.mv(M, ps[i * 3:(i + 1) * 3] + [z3.RealVal(1)])[:3] for i in range(npts)]
        else:
            cam = [ps[i * 3:(i + 1) * 3] for i in range(npts)]
        for c in cam:
            m.ctx.assume += [z3.Or(c[2] >= tiny, c[2] <= -tiny)]
        depth = torch.zeros(npts, dtype=DT)
        m.set_terms(depth, [c[2] for c in cam])
        back = pp.pixel2point(px, depth, Kt)
        err = pp.reprojerr(P, px, Kt, ext)
        errn = pp.reprojerr(P, px, Kt, ext, reduction='norm')
        h = pp.homo2cart(pp.cart2homo(P))
        # "zero exactly for": pixels displaced by d must give |du| + |dv| under 'sum' (documented: L1 norm) and the L2 norm under 'norm'
        dt_ = torch.tensor([0.7, -0.7], dtype=DT)
        ds = m.symbolic(dt_, 'd')
        errs = pp.reprojerr(P, px + dt_, Kt, ext, reduction='sum')
        errn2 = pp.reprojerr(P, px + dt_, Kt, ext, reduction='norm')
        extra.clear()
        extra.update(errs=m.full_terms(errs), errn2=m.full_terms(errn2), ds=ds)
        return m.full_terms(px), m.full_terms(back), m.full_terms(err), m.full_terms(errn), m.full_terms(h), ps, ks, cam

    for ctx, (px, back, err, errn, h, ps, ks, cam) in run_paths(H, name, prog, max_paths=16):
        hyp = H.hyps_of(ctx)
        pn = H.paths
        fx, fy, cx, cy = ks[0], ks[4], ks[2], ks[5]
        for i in range(npts):
            X, Y, Z = cam[i]
            sk = ks[1]
            H.prove('%s/path%d/point2pixel[%d]' % (name, pn, i), hyp, z3.And(px[2 * i] == (fx * X + sk * Y) / Z + cx, px[2 * i + 1] == fy * Y / Z + cy),
                    key='C18/camera/point2pixel', timeout=20, replay=(replay if not with_ext else None))
            H.prove('%s/path%d/pixel2point-inverse[%d]' % (name, pn, i), hyp, z3.And([back[3 * i + c] == cam[i][c] for c in range(3)]),
                    key='C18/camera/inverse', timeout=20, replay=(replay if not with_ext else None))
        H.prove('%s/path%d/reprojerr==0' % (name, pn), hyp, z3.And([e == 0 for e in err + errn]), key='C18/camera/reprojerr', timeout=20)
        ab = lambda e_: z3.If(e_ >= 0, e_, -e_)
        ds = extra['ds']
        for i in range(npts):
            H.prove('%s/path%d/reprojerr(sum)==|du|+|dv|[%d]' % (name, pn, i), hyp, extra['errs'][i] == ab(ds[0]) + ab(ds[1]), key='C18/camera/reprojerr',
                    timeout=20, replay=(replay if not with_ext else None))
            H.prove('%s/path%d/reprojerr(norm)^2==du^2+dv^2[%d]' % (name, pn, i), hyp, extra['errn2'][i] * extra['errn2'][i] == ds[0] * ds[0] + ds[1] * ds[1],
                    key='C18/camera/reprojerr', timeout=20)
        H.prove('%s/path%d/homo2cart(cart2homo)' % (name, pn), hyp, z3.And([a == b for a, b in zip(h, ps)]), key='C18/camera/homo', timeout=20)
        if pn % 2 == 0:
            H.reach('%s/path%d/reach' % (name, pn), hyp)


def case_camera_batched(H, B, N):
    """Configuration case: a batch of B cameras (intrinsics (B,3,3), as documented "(..., 3, 3)") with N points each. The batched
    pixel2point(point2pixel(P)) must give back P camera by camera; N != B on purpose (an alignment of B with N cannot hide)."""
    name = 'C18/camera-batched/B=%d/N=%d' % (B, N)

    def concrete(model):
        P = tensor_from_env(['p%d' % i for i in range(3 * B * N)], model).view(B, N, 3)
        K = tensor_from_env(['k%d' % i for i in range(9 * B)], model).view(B, 3, 3)
        if float(K.abs().sum()) == 0 or float(P.abs().sum()) == 0 or (P[..., 2].abs() < 1e-6).any() or (K[:, 0, 0] == 0).any() or (K[:, 1, 1] == 0).any():
            gen = torch.Generator().manual_seed(3)
            P = torch.rand(B, N, 3, dtype=DT, generator=gen) + 1
            K = torch.stack([torch.tensor([[2.0 + b, 0.3 * b, 4.5], [0, 3.0 - b, 4.0 + b], [0, 0, 1]], dtype=DT) for b in range(B)])
        K = K.clone(); K[:, 1, 0] = 0; K[:, 2, 0] = 0; K[:, 2, 1] = 0; K[:, 2, 2] = 1
        return P, K

    def replay(model):
        P, K = concrete(model)
        try:
            px = pp.point2pixel(P, K)
            back = pp.pixel2point(px, P[..., 2], K)
        except Exception as e:
            return True, 'B=%d cameras with N=%d points each: %s: %s' % (B, N, type(e).__name__, str(e)[:120])
        ref = torch.stack([pp.pixel2point(pp.point2pixel(P[b], K[b]), P[b, :, 2], K[b]) for b in range(B)])
        e1 = (back - P).abs().max().item() / (1 + P.abs().max().item())
        e2 = (back - ref).abs().max().item() / (1 + P.abs().max().item())
        return (e1 > 1e-9 or e2 > 1e-9), 'batched intrinsics: pixel2point(point2pixel(P)) differs from P by %.3g, from the camera-by-camera result by %.3g (relative)' % (e1, e2)

    def prog(m):
        gen = torch.Generator().manual_seed(8)
        P = torch.randn(B, N, 3, dtype=DT, generator=gen) + torch.tensor([0, 0, 4.0], dtype=DT)
        ps = m.symbolic(P, 'p')
        Kt = torch.stack([torch.tensor([[300.0 + 10 * b, 0.5 * b, 160], [0, 310.0 - 5 * b, 120 + b], [0, 0, 1]], dtype=DT) for b in range(B)])
        ks = m.symbolic(Kt, 'k')
        tiny = rat(torch.finfo(DT).tiny)
        for b in range(B):
            k = ks[9 * b:9 * b + 9]
            m.ctx.assume += [k[3] == 0, k[6] == 0, k[7] == 0, k[8] == 1, k[0] != 0, k[4] != 0]
        for i in range(B * N):
            m.ctx.assume += [z3.Or(ps[3 * i + 2] >= tiny, ps[3 * i + 2] <= -tiny)]
        px = pp.point2pixel(P, Kt)
        back = pp.pixel2point(px, P[..., 2], Kt)
        return m.full_terms(px), m.full_terms(back), tuple(back.shape), ps, ks

    def on_raise(ctx, e):
        H.absorb(ctx)
        bad, det = replay(dict(ctx.env))
        if bad:
            H.violation('C18/camera/inverse', '%s: %s' % (name, det), {'case': name, 'model': {k: v for k, v in ctx.env.items() if isinstance(v, float)}})
        else:
            H.prove('%s/raising-path%d-infeasible' % (name, H.paths), H.hyps_of(ctx), z3.BoolVal(False), replay=replay, key='C18/camera/inverse', timeout=20)

    for ctx, (px, back, shape, ps, ks) in run_paths(H, name, prog, max_paths=16, raised=on_raise):
        hyp = H.hyps_of(ctx)
        pn = H.paths
        H.prove('%s/path%d/shape' % (name, pn), [], z3.BoolVal(shape == (B, N, 3)), replay=replay, key='C18/camera/inverse')
        if shape != (B, N, 3):
            continue
        for b in range(B):
            k = ks[9 * b:9 * b + 9]
            for i in range(N):
                o = b * N + i
                X, Y, Z = ps[3 * o:3 * o + 3]
                H.prove('%s/path%d/point2pixel[%d,%d]' % (name, pn, b, i), hyp,
                        z3.And(px[2 * o] == (k[0] * X + k[1] * Y) / Z + k[2], px[2 * o + 1] == k[4] * Y / Z + k[5]), key='C18/camera/point2pixel', timeout=20, replay=replay)
                H.prove('%s/path%d/pixel2point-inverse[%d,%d]' % (name, pn, b, i), hyp, z3.And([back[3 * o + c] == ps[3 * o + c] for c in range(3)]),
                        key='C18/camera/inverse', timeout=20, replay=replay)


def case_camera_intpixels(H):
    """Configuration case: an integer pixel grid (torch.meshgrid of arange, int64) with floating depth and intrinsics:
    pixel2point must still be the pinhole back-projection (type promotion, no truncation)."""
    name = 'C18/camera/int64-pixel-grid'
    pix = torch.tensor([[3, 5], [10, 2], [0, 7]], dtype=torch.int64)
    N = pix.shape[0]

    def concrete(model):
        d = tensor_from_env(['z%d' % i for i in range(N)], model)
        K = tensor_from_env(['k%d' % i for i in range(9)], model).view(3, 3)
        if float(K.abs().sum()) == 0 or float(d.abs().sum()) == 0 or K[0, 0] == 0 or K[1, 1] == 0:
            d = torch.tensor([1.7, 0.3, 2.9], dtype=DT)
            K = torch.tensor([[2.5, 0.3, 4.5], [0, 2.0, 3.5], [0, 0, 1]], dtype=DT)
        K = K.clone(); K[1, 0] = 0; K[2, 0] = 0; K[2, 1] = 0; K[2, 2] = 1
        return d, K

    def replay(model):
        d, K = concrete(model)
        out = pp.pixel2point(pix, d, K)
        y = (pix[:, 1].to(DT) - K[1, 2]) * d / K[1, 1]
        x = ((pix[:, 0].to(DT) - K[0, 2]) * d - K[0, 1] * y) / K[0, 0]
        ref = torch.stack([x, y, d], -1)
        if out.dtype != DT:
            return True, 'pixel2point(int64 pixels, float64 depth, float64 intrinsics) returned dtype %s' % out.dtype
        e = ((out - ref).abs().amax(-1) / ref.abs().amax(-1)).max().item()
        return e > 1e-9, 'pixel2point on an int64 pixel grid differs from the pinhole back-projection by %.3g (relative), depth %s' % (e, d.tolist())

    def prog(m):
        d = torch.tensor([1.7, 0.3, 2.9], dtype=DT)
        zs = m.symbolic(d, 'z')
        Kt = torch.tensor([[2.5, 0.3, 4.5], [0, 2.0, 3.5], [0, 0, 1]], dtype=DT)
        ks = m.symbolic(Kt, 'k')
        m.ctx.assume += [ks[3] == 0, ks[6] == 0, ks[7] == 0, ks[8] == 1, ks[0] != 0, ks[4] != 0]
        out = pp.pixel2point(pix, d, Kt)
        return m.full_terms(out), out.dtype, tuple(out.shape), zs, ks

    for ctx, (out, dtype, shape, zs, ks) in run_paths(H, name, prog, max_paths=8):
        hyp = H.hyps_of(ctx)
        pn = H.paths
        H.prove('%s/path%d/dtype-and-shape' % (name, pn), [], z3.BoolVal(dtype == DT and shape == (N, 3)), replay=replay, key='C18/camera/inverse')
        no_downcast_ob(H, ctx, '%s/path%d' % (name, pn), 'C18/camera/inverse', replay)
        if shape != (N, 3):
            continue
        for i in range(N):
            u, v = z3.RealVal(int(pix[i, 0])), z3.RealVal(int(pix[i, 1]))
            Y = (v - ks[5]) * zs[i] / ks[4]
            X = ((u - ks[2]) * zs[i] - ks[1] * Y) / ks[0]
            H.prove('%s/path%d/back-projection[%d]' % (name, pn, i), hyp, z3.And(out[3 * i] == X, out[3 * i + 1] == Y, out[3 * i + 2] == zs[i]),
                    replay=replay, key='C18/camera/inverse', timeout=20)


def run(H):
    H.assumptions += ['exact real arithmetic', 'ties between distances excluded where indices matter (general position)',
                      'intrinsics of the pinhole form [[fx,s,cx],[0,fy,cy],[0,0,1]] with fx,fy != 0 and any skew s; |depth| >= tiny']
    H.bounds += ['clouds of N<=3 points (thorough 4), dimensions 1-2 (+1 feature channel), k<=2, norms 1/2/inf',
                 'every ordering / partition of the points reachable by decisions is explored (paths capped at 128 per case)']
    N = 3
    jobs = []
    for ord_ in (2, 1, float('inf')):
        jobs.append(lambda o=ord_: case_knn(H, 2, N, 2, 2, o))
        jobs.append(lambda o=ord_: case_nbr_filter(H, N, 2, 1, 1.0, o, 1))
    jobs.append(lambda: case_knn(H, 1, N, 1, 1, 2))
    jobs.append(lambda: case_voxel(H, N, 1, (0.5,), 1))
    jobs.append(lambda: case_voxel(H, N, 2, (0.5, 1.0), 0))
    jobs.append(lambda: case_voxel_random(H, N, 1, (0.5,), 1))
    jobs.append(lambda: case_voxel_random(H, 1, 2, (0.5, 1.0), 0))
    jobs.append(lambda: case_knn_filter(H, N, 2, 1, None, 1))
    jobs.append(lambda: case_knn_filter(H, N, 1, 1, 1.0, 0))
    jobs.append(lambda: case_knn_filter(H, N, 2, 1, 1.5, 1, 1))
    jobs.append(lambda: case_random_filter(H, 4, 2, 3))
    jobs.append(lambda: case_random_filter(H, 3, 3, 3))
    jobs.append(lambda: case_camera(H, 2, False))
    jobs.append(lambda: case_camera(H, 1, True))
    jobs.append(lambda: case_camera_batched(H, 2, 3))
    jobs.append(lambda: case_camera_batched(H, 2, 2))
    jobs.append(lambda: case_camera_intpixels(H))
    if not H.quick:
        jobs.append(lambda: case_knn(H, 2, 4, 2, 2, 2))
        jobs.append(lambda: case_knn_filter(H, 4, 1, 2, 1.0, 0))
        jobs.append(lambda: case_knn_filter(H, 4, 2, 1, 1.0, 1, float('inf')))
        jobs.append(lambda: case_nbr_filter(H, 4, 1, 2, 0.7, 2, 0))
        jobs.append(lambda: case_voxel(H, 4, 1, (0.3,), 0))
    for j in jobs:
        try:
            j()
        except Exception as e:
            import traceback; traceback.print_exc()
            H.engine_error('c18', e)
    return H.finish(explanation=EXPLAIN)
