"""CrossHair contracts: the temporary patching of PyTorch internals by retain_ltype / func.jacrev is undone on exit even when the
wrapped body raises at an arbitrary (symbolic) point."""
import torch
import torch._functorch.eager_transforms as _et
import torch._functorch.vmap as _vm
import torch.autograd.forward_ad as _fa

import pypose as pp
from pypose.lietensor.lietensor import retain_ltype


def _snapshot():
    return (_fa.make_dual, _et._wrap_tensor_for_grad, _vm._add_batch_dim)


def retain_ltype_spec(k: int, n: int, nested: bool) -> bool:
    """
    pre: 0 <= n <= 4 and -1 <= k <= 4
    post: _
    """
    orig = _snapshot()

    def body():
        for i in range(n):
            if i == k:
                raise ValueError('fault injected at step %d' % i)
    try:
        with retain_ltype():
            if nested:
                try:
                    with retain_ltype():
                        body()
                except ValueError:
                    pass
            body()
    except ValueError:
        pass
    now = _snapshot()
    return now[0] is orig[0] and now[1] is orig[1] and now[2] is orig[2]


def jacrev_spec(k: int, n: int) -> bool:
    """
    pre: 0 <= n <= 3 and -1 <= k <= 3
    post: _
    """
    orig = _snapshot()
    real = torch.func.jacrev

    def fake_jacrev(func, argnums=0, **kw):
        # stands in for torch.func.jacrev (C++-heavy): calls the user function, which may raise at step k
        def run(*a, **b):
            return func(*a, **b)
        return run

    def f(t):
        for i in range(n):
            if i == k:
                raise ValueError('fault injected inside the differentiated function')
        return t
    torch.func.jacrev = fake_jacrev
    try:
        try:
            pp.func.jacrev(f)(1.0)
        except ValueError:
            pass
    finally:
        torch.func.jacrev = real
    now = _snapshot()
    return now[0] is orig[0] and now[1] is orig[1] and now[2] is orig[2]
