"""CrossHair contracts for StopOnPlateau (pure Python controller).  One step from an ARBITRARY controller state
(inductive step: covers every loss history of every length), and the optimize() driver loop with a stub optimizer."""
from typing import List

from pypose.optim.scheduler import StopOnPlateau
from pypose.optim.optimizer import _Optimizer


class _Opt(_Optimizer):
    def __init__(self):        # no torch optimizer state needed: the scheduler only reads loss/last/reject_count
        self.calls = 0
        self.loss = None
        self.last = None


def _mk(steps, max_steps, patience, count, cont, decreasing, opt):
    s = object.__new__(StopOnPlateau)
    s.optimizer, s.verbose = opt, False
    s.max_steps, s.steps, s._continual = max_steps, steps, cont
    s.continual = StopOnPlateau.Continual(s)
    s.decreasing, s.patience, s.patience_count = decreasing, patience, count
    return s


def step_spec(steps: int, max_steps: int, patience: int, count: int, cont: bool, decreasing: float, last: float,
              loss: float, reject: int, has_reject: bool) -> bool:
    """
    pre: 0 <= steps <= 1000 and 1 <= max_steps <= 1000 and 1 <= patience <= 1000 and 0 <= count <= 1000
    pre: 0 <= reject <= 64
    pre: -1e9 < last < 1e9 and -1e9 < loss < 1e9 and -1e3 < decreasing < 1e3
    post: _
    """
    o = _Opt()
    o.last, o.loss = last, loss
    if has_reject:
        o.reject_count = reject
    s = _mk(steps, max_steps, patience, count, cont, decreasing, o)
    s.step(loss)
    nodec = (last - loss) < decreasing
    c2 = count + 1 if nodec else 0
    stop = (steps + 1 >= max_steps) or (c2 >= patience) or (has_reject and reject > 0)
    exp_cont = cont and not stop
    return s.steps == steps + 1 and s.patience_count == c2 and s.continual() == exp_cont


class _LoopOpt(_Opt):
    def __init__(self, losses, rejects):
        super().__init__()
        self.losses, self.rejects = losses, rejects

    def step(self, input, target=None, weight=None):
        i = self.calls
        self.last = self.loss if self.loss is not None else self.losses[i] + 1.0
        self.loss = self.losses[i]
        self.reject_count = self.rejects[i]
        self.calls += 1
        return self.loss


def optimize_spec(max_steps: int, patience: int, decreasing: float, l0: float, l1: float, l2: float, r0: int, r1: int,
                  r2: int) -> int:
    """
    pre: 1 <= max_steps <= 3 and 1 <= patience <= 2 and 0.0 <= decreasing <= 1.0
    pre: -100.0 < l0 < 100.0 and -100.0 < l1 < 100.0 and -100.0 < l2 < 100.0
    pre: 0 <= r0 <= 1 and 0 <= r1 <= 1 and 0 <= r2 <= 1
    post: 1 <= _ <= max_steps
    """
    o = _LoopOpt([l0, l1, l2, l2], [r0, r1, r2, r2])
    s = _mk(0, max_steps, patience, 0, True, decreasing, o)
    f = StopOnPlateau.optimize
    f = getattr(f, '__wrapped__', f)        # skip the torch.no_grad() wrapper (a C boundary, irrelevant to the logic)
    f(s, None)
    return o.calls
