"""C10 - linear solvers (PINV, LSTSQ, Cholesky, CG) and block-sparse products."""
import itertools

import torch
import z3

import pypose as pp
import pypose.optim.solver as ppos
from pypose.sparse.ops import _sparse_csr_mm
from symx import terms as T
from symx.engine import det_terms, rat
from .common import *

EXPLAIN = ("Cholesky.forward runs under symx with cholesky_ex replaced by its LAPACK contract (info==0 <=> A positive definite, "
           "then L L^T = A) and cholesky_solve by its definition: for every symbolic symmetric A, b every returning path must satisfy "
           "A x = b, so a path that ignores the status flag yields a model (an indefinite A) that is replayed on the real LAPACK. "
           "PINV/LSTSQ: pinv/lstsq are contract stubs (Moore-Penrose / normal equations); the wrappers' result term, argument order and "
           "option plumbing are obligations. CG: the real loop on symbolic SPD A (n<=2), optional x0 and preconditioner, every "
           "decision path; invariant r = b - A x and the stopping bound are obligations, exact finite termination makes the "
           "fall-through return harmless. bsr_bsc_matmul/_sparse_csr_mm (TorchScript merge-join) on every block pattern pair of small "
           "grids with symbolic block values: dense equivalent == dense product for all values.")


def _spd_assume(M, n):
    mins = [det_terms([M[r][c] for r in range(k) for c in range(k)], k) for k in range(1, n + 1)]
    return [d > 0 for d in mins]


def _sym_matrix(m, n, name, seed):
    gen = torch.Generator().manual_seed(seed)
    G = torch.randn(n, n, dtype=DT, generator=gen)
    A = G @ G.T + n * torch.eye(n, dtype=DT)
    vs = m.symbolic(A, name)
    M = T.mat(vs, n, n)
    m.ctx.assume += [M[i][j] == M[j][i] for i in range(n) for j in range(i)]
    return A, M, vs


# ------------------------------------------------------------------------------------------------ Cholesky
def case_cholesky(H, n, pd, upper, k=1):
    name = 'C10/Cholesky/n=%d/%s/upper=%s' % (n, 'PD' if pd else 'notPD', upper)
    raised_paths = []

    def prog(m):
        A, M, vs = _sym_matrix(m, n, 'a', 100 + n)
        b = torch.randn(n, k, dtype=DT)
        bs = m.symbolic(b, 'b')
        spd = _spd_assume(M, n)
        m.ctx.assume += spd if pd else [z3.Not(z3.And(spd))]
        x = ppos.Cholesky(upper=upper)(A, b)
        return m.full_terms(x), M, bs, vs

    def on_raise(ctx, e):
        raised_paths.append((ctx, e))

    def replay(model, upper=upper):
        A = torch.tensor([[float(model.get('a%d' % (i * n + j), 0.0)) for j in range(n)] for i in range(n)], dtype=DT)
        A = 0.5 * (A + A.T)
        b = torch.tensor([[float(model.get('b%d' % (i * k + j), 0.0)) for j in range(k)] for i in range(n)], dtype=DT)
        ev = torch.linalg.eigvalsh(A)
        try:
            x = ppos.Cholesky(upper=upper)(A, b)
        except Exception as e:
            if ev.min() > 1e-9:
                return True, 'raised %s for a positive definite A (min eig %.3g)' % (type(e).__name__, ev.min())
            return False, 'raised as required'
        res = (A @ x - b).abs().max().item()
        if res != res or res > 1e-6 * (1 + b.abs().max().item()):
            return True, 'returned a vector with residual |Ax-b| = %.3g without raising; A=%s (eigenvalues %s)' % (res, A.tolist(), ev.tolist())
        return False, 'residual %.3g' % res

    for ctx, (x, M, bs, vs) in run_paths(H, name, prog, raised=on_raise):
        hyp = H.hyps_of(ctx)
        Ax = T.mm(M, T.mat(x, n, k))
        for i in range(n):
            for j in range(k):
                H.prove('%s/Ax=b[%d,%d]' % (name, i, j), hyp, Ax[i][j] == bs[i * k + j], replay=replay,
                        key='C10/Cholesky/%s' % ('solution' if pd else 'not-PD-must-raise'))
        if pd:
            H.reach(name + '/reach', hyp)
    for ctx, e in raised_paths:
        H.absorb(ctx)
        if pd:
            # raising on a PD matrix: the raising path must be infeasible
            H.prove('%s/no-raise-on-PD/path%d' % (name, H.paths), H.hyps_of(ctx), z3.BoolVal(False), replay=replay,
                    key='C10/Cholesky/raises-on-PD')


def case_cholesky_batch(H, n, bad):
    """a batch of two systems of which item `bad` is symmetric but NOT positive definite (the other one is): whatever is returned
    without raising must solve every item"""
    name = 'C10/Cholesky/batch2/n=%d/item%d-notPD' % (n, bad)
    k = 1

    def prog(m):
        A0, M0, _ = _sym_matrix(m, n, 'a', 100 + n)
        A1, M1, _ = _sym_matrix(m, n, 'c', 300 + n)
        Ms = [M0, M1]
        for i_, M in enumerate(Ms):
            spd = _spd_assume(M, n)
            m.ctx.assume += [z3.Not(z3.And(spd))] if i_ == bad else spd
        A = torch.stack([A0, A1])
        m.set_terms(A, [M0[i][j] for i in range(n) for j in range(n)] + [M1[i][j] for i in range(n) for j in range(n)])
        b = torch.randn(2, n, k, dtype=DT)
        bs = m.symbolic(b, 'b')
        x = ppos.Cholesky()(A, b)
        return m.full_terms(x), Ms, bs

    def replay(model):
        def mat_(pre):
            A = torch.tensor([[float(model.get('%s%d' % (pre, i * n + j), 0.0)) for j in range(n)] for i in range(n)], dtype=DT)
            return 0.5 * (A + A.T)
        A = torch.stack([mat_('a'), mat_('c')])
        b = torch.tensor([float(model.get('b%d' % i, 0.0)) for i in range(2 * n * k)], dtype=DT).view(2, n, k)
        ev = torch.linalg.eigvalsh(A)
        try:
            x = ppos.Cholesky()(A, b)
        except Exception as e:
            return False, 'raised as required'
        res = (A @ x - b).abs().amax(dim=(-1, -2))
        if (not torch.isfinite(res).all()) or res.max().item() > 1e-6 * (1 + b.abs().max().item()):
            return True, ('returned without raising for a batch with a non-positive-definite item; residuals |Ax-b| per item = %s, '
                          'eigenvalues per item %s' % (res.tolist(), ev.tolist()))
        return False, 'residuals %s' % res.tolist()

    for ctx, (x, Ms, bs) in run_paths(H, name, prog, raised=lambda ctx, e: H.absorb(ctx)):
        hyp = H.hyps_of(ctx)
        for it in range(2):
            Ax = T.mm(Ms[it], T.mat(x[it * n * k:(it + 1) * n * k], n, k))
            for i in range(n):
                H.prove('%s/path%d/item%d/Ax=b[%d]' % (name, H.paths, it, i), hyp, Ax[i][0] == bs[it * n * k + i * k], replay=replay,
                        key='C10/Cholesky/not-PD-must-raise')


# ------------------------------------------------------------------------------------------------ PINV / LSTSQ
def case_pinv_lstsq(H, r, c, k, batch):
    for solver_name in ('PINV', 'LSTSQ'):
        herm = (solver_name == 'PINV' and r == c)
        name = 'C10/%s/%dx%d/k=%d/batch=%s' % (solver_name, r, c, k, batch)

        def prog(m, solver_name=solver_name):
            shp = ((batch,) if batch else ())
            A = torch.randn(*shp, r, c, dtype=DT)
            b = torch.randn(*shp, r, k, dtype=DT)
            as_ = m.symbolic(A, 'a')
            bs = m.symbolic(b, 'b')
            if solver_name == 'PINV':
                sol = ppos.PINV(atol=1e-7, rtol=1e-6, hermitian=herm)
            else:
                sol = ppos.LSTSQ(rcond=1e-6, driver='gelsd')
            x = sol(A, b)
            calls = getattr(m.ctx, 'pinv_calls', None) or getattr(m.ctx, 'lstsq_calls', None)
            return m.full_terms(x), as_, bs, calls, tuple(x.shape)

        for ctx, (x, as_, bs, calls, xshape) in run_paths(H, name, prog):
            hyp = H.hyps_of(ctx)
            nb = batch or 1
            ok_shape = xshape == (((batch,) if batch else ()) + (c, k))
            opts = calls[0] if calls else {}
            if solver_name == 'PINV':
                plumb = (abs(float(opts.get('atol', -1)) - 1e-7) < 1e-20 and abs(float(opts.get('rtol', -1)) - 1e-6) < 1e-20
                         and bool(opts.get('hermitian', False)) == herm)
            else:
                plumb = (1e-6 in (opts.get('extra') or []) or opts.get('rcond') == 1e-6) and (opts.get('driver') == 'gelsd' or 'gelsd' in (opts.get('extra') or []))
            if not (ok_shape and plumb):
                H.violation('C10/%s/options' % solver_name, '%s: wrapper did not hand the configured options / shape to the kernel: %s shape %s' % (
                    name, {kk: str(vv) for kk, vv in opts.items() if kk not in ('P', 'X')}, xshape), {'case': name})
            H.prove(name + '/shape+options', [], z3.BoolVal(bool(ok_shape and plumb)), key='C10/%s/options' % solver_name)
            # the wrapper returns the kernel's solution: pinv(A) @ b resp. lstsq(A, b).solution, with (A, b) in this order
            # (the stub's outputs are fresh variables tied to A and b only by the kernel's contract)
            if solver_name == 'PINV':
                P = opts['P']
                for bi in range(nb):
                    Pm = T.mat(P[bi * r * c:(bi + 1) * r * c], c, r)
                    B = T.mat(bs[bi * r * k:(bi + 1) * r * k], r, k)
                    X = T.flat(T.mm(Pm, B))
                    for i, (l, rr) in enumerate(zip(x[bi * c * k:(bi + 1) * c * k], X)):
                        H.prove('%s/x==pinv(A)b[%d][%d]' % (name, bi, i), hyp, l == rr, key='C10/PINV/solution')
            else:
                Xs = opts['X']
                for i, (l, rr) in enumerate(zip(x, Xs)):
                    H.prove('%s/x==lstsq(A,b)[%d]' % (name, i), hyp, l == rr, key='C10/LSTSQ/solution')
            for bi in range(nb):
                A = T.mat(as_[bi * r * c:(bi + 1) * r * c], r, c)
                B = T.mat(bs[bi * r * k:(bi + 1) * r * k], r, k)
                X = T.mat(x[bi * c * k:(bi + 1) * c * k], c, k)
                # least squares (normal equations) as a consequence of the kernel contract: certifies argument order
                if solver_name == 'LSTSQ' or r == c:
                    N = T.mm(T.tr(A), T.msub(T.mm(A, X), B))
                    for i in range(c):
                        for jj in range(k):
                            H.prove('%s/normal-eq[%d][%d,%d]' % (name, bi, i, jj), hyp, N[i][jj] == 0, key='C10/%s/least-squares' % solver_name,
                                    timeout=(10 if H.quick else 60))


def case_solver_history(H, solver_name):
    """one solver object, called twice with the SAME tensor object A that the caller updated in place in between (what LM's retry loop
    does with A.diagonal().add_): the second solution must solve the updated system (2x2, normal equations)"""
    name = 'C10/%s/second-call-after-in-place-update-of-A' % solver_name
    n = 2

    def mk():
        return {'PINV': lambda: ppos.PINV(), 'LSTSQ': lambda: ppos.LSTSQ(), 'Cholesky': lambda: ppos.Cholesky()}[solver_name]()

    def prog(m):
        A, M, vs = _sym_matrix(m, n, 'a', 140)
        m.ctx.assume += _spd_assume(M, n)
        b = torch.randn(n, 1, dtype=DT)
        bs = m.symbolic(b, 'b')
        lam = torch.tensor([0.7], dtype=DT)
        ls = m.symbolic(lam, 'l')
        m.ctx.assume += [ls[0] > z3.RealVal('1/10'), ls[0] < 10]
        sol = mk()
        sol(A, b)
        A.diagonal().add_(lam)                       # in place, same tensor object
        x2 = sol(A, b)
        return m.full_terms(x2), M, bs, ls

    def replay(model):
        A = torch.tensor([[float(model.get('a%d' % (i * n + j), 0.0)) for j in range(n)] for i in range(n)], dtype=DT)
        A = 0.5 * (A + A.T)
        if torch.linalg.eigvalsh(A).min() <= 1e-6:
            A = A + (1e-3 - torch.linalg.eigvalsh(A).min().item()) * torch.eye(n, dtype=DT) + torch.eye(n, dtype=DT)
        b = torch.tensor([[float(model.get('b%d' % i, 1.0))] for i in range(n)], dtype=DT)
        if float(b.abs().sum()) == 0:
            b = torch.ones(n, 1, dtype=DT)
        lam = float(model.get('l0', 0.7))
        sol = mk()
        sol(A, b)
        A.diagonal().add_(lam)
        x2 = sol(A, b)
        res = (A @ x2 - b).abs().max().item()
        return res > 1e-8 * (1 + b.abs().max().item()), ('%s: second call on the same tensor object after A.diagonal().add_(%.3g) returns a vector with residual '
                                                        '|A x - b| = %.3g for the updated A' % (solver_name, lam, res))

    for ctx, (x2, M, bs, ls) in run_paths(H, name, prog, max_paths=4, raised=lambda ctx, e: H.absorb(ctx)):
        hyp = H.hyps_of(ctx)
        A2 = [[M[i][j] + (ls[0] if i == j else 0) for j in range(n)] for i in range(n)]
        r_ = [z3.Sum([A2[i][j] * x2[j] for j in range(n)]) - bs[i] for i in range(n)]
        N = [z3.Sum([A2[i][j] * r_[i] for i in range(n)]) for j in range(n)]
        for j in range(n):
            H.prove('%s/path%d/normal-eq[%d]' % (name, H.paths, j), hyp, N[j] == 0, replay=replay, key='C10/%s/history' % solver_name, timeout=20)


# ------------------------------------------------------------------------------------------------ CG
def case_cg(H, n, x0, precond, layout):
    name = 'C10/CG/n=%d/x0=%s/M=%s/%s' % (n, x0, precond, layout)
    tol = 1e-5

    def prog(m):
        gen = torch.Generator().manual_seed(200 + n)
        G = torch.randn(n, n, dtype=DT, generator=gen)
        A = G @ G.T + n * torch.eye(n, dtype=DT)
        Aop = A
        if layout != 'dense':
            Aop = {'csr': A.to_sparse_csr, 'coo': lambda: A.to_sparse().coalesce()}[layout]()
            tgt = Aop.values() if layout == 'csr' else Aop._values()   # all n*n entries stored, row-major
        else:
            tgt = A
        vs = m.symbolic(tgt, 'a')
        M = T.mat(vs, n, n)
        m.ctx.assume += [M[i][j] == M[j][i] for i in range(n) for j in range(i)]
        m.ctx.assume += _spd_assume(M, n)
        b = torch.randn(n, 1, dtype=DT)
        bs = m.symbolic(b, 'b')
        kw = {}
        xs = None
        if x0:
            x = torch.randn(n, 1, dtype=DT)
            xs = m.symbolic(x, 'x')
            kw['x'] = x
        Ms = None
        if precond:
            Mt, Mm, Ms = _sym_matrix(m, n, 'm', 300 + n)
            m.ctx.assume += _spd_assume(Mm, n)
            kw['M'] = Mt
        sol = ppos.CG(maxiter=n + 1, tol=tol)
        out = sol(Aop, b, **kw)
        return m.full_terms(out), M, bs, xs, m, out

    def replay(model):
        A = torch.tensor([[float(model.get('a%d' % (i * n + j), 0.0)) for j in range(n)] for i in range(n)], dtype=DT)
        A = 0.5 * (A + A.T)
        b = torch.tensor([[float(model.get('b%d' % i, 0.0))] for i in range(n)], dtype=DT)
        kw = {}
        if x0:
            kw['x'] = torch.tensor([[float(model.get('x%d' % i, 0.0))] for i in range(n)], dtype=DT)
        if precond:
            Mt = torch.tensor([[float(model.get('m%d' % (i * n + j), 0.0)) for j in range(n)] for i in range(n)], dtype=DT)
            kw['M'] = 0.5 * (Mt + Mt.T)
        if torch.linalg.eigvalsh(A).min() <= 1e-9 or (precond and torch.linalg.eigvalsh(kw['M']).min() <= 1e-9):
            return False, 'model not SPD after rounding'
        if torch.linalg.cond(A) > 1e3:
            return False, 'model outside the documented conditioning (cond > 1e3)'
        Aop = A if layout == 'dense' else (A.to_sparse_csr() if layout == 'csr' else A.to_sparse())
        x = ppos.CG(tol=tol)(Aop, b, **kw)
        res = (b - A @ x).norm().item()
        if res > tol * b.norm().item() * (1 + 1e-6) + 1e-12:
            return True, '|b-Ax| = %.3g > tol|b| = %.3g (default maxiter)' % (res, tol * b.norm().item())
        return False, 'residual ok %.3g' % res

    for ctx, (x, M, bs, xs, m, out) in run_paths(H, name, prog, max_paths=32, max_decisions=12):
        selftest(H, ctx, m, [(x, out)], name)
        hyp = H.hyps_of(ctx)
        pn = H.paths
        r = [bs[i] - z3.Sum([M[i][j] * x[j] for j in range(n)]) for i in range(n)]
        r2 = z3.Sum([ri * ri for ri in r])
        b2 = z3.Sum([bi * bi for bi in bs])
        t2 = rat(tol) * rat(tol)
        sq = [(v, a) for (f, _), (v, a) in ctx.tf.items() if f == 'sqrt']
        early = len(ctx.trace) >= 1 and ctx.trace[0][1] is True and len(ctx.trace) == 1      # b == 0 : returns b
        if early or not sq:
            H.prove('%s/path%d/zero-rhs-returns-zero' % (name, pn), hyp, z3.And([xi == 0 for xi in x]), replay=replay, key='C10/CG/zero-rhs')
            continue
        vlast, alast = sq[-1]
        vb = ctx.tfun('sqrt', b2)
        check_exit = ctx.trace[-1][1] is True
        base = list(ctx.assume) + list(ctx.axioms) + list(ctx.pc)
        plain = (not x0 and not precond and layout == 'dense')
        RL, R2, B2 = z3.Real('RL'), z3.Real('R2'), z3.Real('B2')
        if check_exit:
            # staged: (L1) the recursively updated residual whose norm the code tests IS the true residual b - A x
            #         (a rational identity; the path condition only keeps denominators away from 0);
            #         (final) the tested inequality gives the bound - proved on the abstraction RL:=|r_k|^2, R2:=|b-Ax|^2,
            #         B2:=|b|^2 (a substitution instance of which is the concrete statement)
            L1 = H.prove('%s/path%d/lemma:r==b-Ax' % (name, pn), base, alast == r2, key='C10/CG/residual', replay=replay,
                         timeout=(20 if H.quick else 120))
            H.prove('%s/path%d/residual-bound' % (name, pn),
                    [ctx.pc[-1], vlast >= 0, vb >= 0, vlast * vlast == RL, vb * vb == B2, RL == R2], R2 <= t2 * B2,
                    replay=replay, key='C10/CG/residual', depends=[L1], timeout=20)
        else:
            # fall-through return after maxiter = n+1 iterations: exact CG has r_n == 0, so this path is infeasible
            L0 = H.prove('%s/path%d/lemma:r_n==0' % (name, pn), base[:-1] + [b2 != 0], alast == 0, key='C10/CG/finite-termination',
                         replay=replay, timeout=((75 if plain else 20) if H.quick else 300))
            H.prove('%s/path%d/fall-through-infeasible' % (name, pn),
                    [ctx.pc[-1], ctx.pc[0], vlast >= 0, vb >= 0, vlast * vlast == RL, vb * vb == B2, z3.Implies(B2 != 0, RL == 0),
                     z3.Implies(B2 == 0, vb == 0)], z3.BoolVal(False), replay=replay,
                    key='C10/CG/residual', depends=[L0], timeout=20)


# ------------------------------------------------------------------------------------------------ block sparse products
def _patterns(rows, cols):
    cells = [(i, j) for i in range(rows) for j in range(cols)]
    for mask in range(1 << len(cells)):
        yield [cells[k] for k in range(len(cells)) if mask >> k & 1]


def _compressed(pattern, grid, bshape, mode, vals):
    """sparse BSR/BSC (or CSR/CSC when the block is 1x1) tensor with the given block pattern"""
    rows, cols = grid
    if mode in ('bsr', 'csr'):
        order = sorted(pattern)
        comp = [0]
        for i in range(rows):
            comp.append(comp[-1] + len([p for p in order if p[0] == i]))
        plain = [p[1] for p in order]
    else:
        order = sorted(pattern, key=lambda p: (p[1], p[0]))
        comp = [0]
        for j in range(cols):
            comp.append(comp[-1] + len([p for p in order if p[1] == j]))
        plain = [p[0] for p in order]
    size = (rows * bshape[0], cols * bshape[1])
    comp, plain = torch.tensor(comp, dtype=torch.int64), torch.tensor(plain, dtype=torch.int64)
    if mode == 'bsr':
        return torch.sparse_bsr_tensor(comp, plain, vals, size=size), order
    if mode == 'bsc':
        return torch.sparse_bsc_tensor(comp, plain, vals, size=size), order
    if mode == 'csr':
        return torch.sparse_csr_tensor(comp, plain, vals.reshape(-1), size=size), order
    return torch.sparse_csc_tensor(comp, plain, vals.reshape(-1), size=size), order


def case_bsr(H, g1, g2, b1, b2, modes, patterns):
    """g1=(sm,sn) block grid of the left operand, g2=(sn,sp); b1=(dm,dn), b2=(dn,dp)"""
    for pa, pb in patterns:
        name = 'C10/sparse/%s x %s/grid=%sx%s/blocks=%sx%s/pat=%s|%s' % (modes[0], modes[1], g1, g2, b1, b2,
                                                                        ''.join('%d%d' % p for p in pa) or '-', ''.join('%d%d' % p for p in pb) or '-')

        def prog(m, pa=pa, pb=pb):
            va = torch.randn(len(pa), *b1, dtype=DT)
            vb = torch.randn(len(pb), *b2, dtype=DT)
            A, oa = _compressed(pa, g1, b1, modes[0], va)
            B, ob = _compressed(pb, g2, b2, modes[1], vb)
            sa = m.symbolic(A.values(), 'u')
            sb = m.symbolic(B.values(), 'w')
            Ad, Bd = m.full_terms(A), m.full_terms(B)
            out = _sparse_csr_mm(A, B)
            return m.full_terms(out), Ad, Bd, tuple(out.shape), (va, vb)

        def on_raise(ctx, e, pa=pa, pb=pb, name=name):
            # the helper must not raise on a legal pattern pair: replay without the engine
            try:
                va = torch.randn(len(pa), *b1, dtype=DT)
                vb = torch.randn(len(pb), *b2, dtype=DT)
                A, _ = _compressed(pa, g1, b1, modes[0], va)
                B, _ = _compressed(pb, g2, b2, modes[1], vb)
                _sparse_csr_mm(A, B)
                H.engine_error(name, e)
            except Exception as e2:
                H.violation('C10/sparse/raises', '%s raised %s: %s' % (name, type(e2).__name__, str(e2)[:100]), {'case': name})

        def replay(model, pa=pa, pb=pb):
            gen = torch.Generator().manual_seed(5)
            va = torch.randint(-3, 4, (len(pa),) + tuple(b1), generator=gen).double()
            vb = torch.randint(-3, 4, (len(pb),) + tuple(b2), generator=gen).double()
            A, _ = _compressed(pa, g1, b1, modes[0], va)
            B, _ = _compressed(pb, g2, b2, modes[1], vb)
            try:
                out = _sparse_csr_mm(A, B).to_dense()
            except Exception as e:
                return True, 'raised %s' % type(e).__name__
            ref = A.to_dense() @ B.to_dense()
            d = (out - ref).abs().max().item() if out.shape == ref.shape else float('inf')
            return d > 1e-9, 'sparse product differs from the dense product by %.3g' % d

        for ctx, (out, Ad, Bd, oshape, _) in run_paths(H, name, prog, raised=on_raise):
            R, K, C = g1[0] * b1[0], g1[1] * b1[1], g2[1] * b2[1]
            ref = T.flat(T.mm(T.mat(Ad, R, K), T.mat(Bd, K, C)))
            ok_shape = (oshape == (R, C)) and len(out) == len(ref)
            if not ok_shape:
                H.prove(name + '/shape', [], z3.BoolVal(False), replay=replay, key='C10/sparse/product')
                continue
            H.prove(name, [], z3.And([o == r for o, r in zip(out, ref)]), replay=replay, key='C10/sparse/product', timeout=10)


def run(H):
    H.assumptions += ['exact real arithmetic; conditioning up to 1e8 and the LAPACK kernels themselves are outside (contract stubs)',
                      'CG: exact-arithmetic conjugate gradients; iteration counts under rounding are outside']
    H.bounds += ['Cholesky n<=%d, right-hand sides k<=2; batches of 2 systems (n=2) mixing a positive definite and a non-PD item' % (2 if H.quick else 3), 'PINV/LSTSQ shapes 2x2, 3x2, 2x3 (+batch 2)',
                 'CG n<=2 with maxiter=n+1 (exact finite termination makes the default 10n equivalent)',
                 'block grids up to 2x2 (quick) / 3x2,2x3 (thorough), block sizes 1..2, every sparsity pattern pair incl. empty']
    try:
        for n in ([1, 2] if H.quick else [1, 2, 3]):
            for pd in (True, False):
                for upper in (False, True):
                    case_cholesky(H, n, pd, upper, k=1 if n > 1 else 2)
        for bad in (0, 1):
            case_cholesky_batch(H, 2, bad)
    except Exception as e:
        import traceback; traceback.print_exc()
        H.engine_error('cholesky', e)
    try:
        for (r, c, k, batch) in ([(2, 2, 1, 0), (3, 2, 1, 0), (2, 3, 1, 0), (2, 2, 2, 2)] if H.quick else
                                  [(2, 2, 1, 0), (3, 2, 1, 0), (2, 3, 1, 0), (2, 2, 2, 2), (3, 3, 1, 0), (3, 2, 2, 2), (1, 2, 1, 0), (2, 1, 1, 0)]):
            case_pinv_lstsq(H, r, c, k, batch)
    except Exception as e:
        import traceback; traceback.print_exc()
        H.engine_error('pinv/lstsq', e)
    for sn in ('PINV', 'LSTSQ', 'Cholesky'):
        try:
            case_solver_history(H, sn)
        except Exception as e:
            import traceback; traceback.print_exc()
            H.engine_error('history/' + sn, e)
    try:
        for n in (1, 2):
            for x0 in (False, True):
                for precond in (False, True):
                    for layout in (('dense', 'csr', 'coo') if (not x0 and not precond) or not H.quick else ('dense',)):
                        case_cg(H, n, x0, precond, layout)
    except Exception as e:
        import traceback; traceback.print_exc()
        H.engine_error('cg', e)
    try:
        grids = [((1, 1), (1, 1)), ((2, 2), (2, 2)), ((1, 2), (2, 1)), ((2, 1), (1, 2)), ((1, 2), (2, 2)), ((2, 2), (2, 1)), ((2, 1), (1, 1)), ((1, 1), (1, 2))]
        if not H.quick:
            grids += [((3, 2), (2, 3)), ((2, 3), (3, 2)), ((1, 3), (3, 1)), ((3, 1), (1, 3))]
        import random
        rnd = random.Random(H.seed)
        for g1, g2 in grids:
            pats = list(itertools.product(_patterns(*g1), _patterns(*g2)))
            cap = 48 if H.quick else 400
            if len(pats) > cap:
                keep = [pats[0], pats[-1]] + rnd.sample(pats[1:-1], cap - 2)
                H.notes.append('grid %sx%s: %d of %d pattern pairs (seeded sample; always incl. empty and full)' % (g1, g2, len(keep), len(pats)))
                pats = keep
            for bsz in ([((1, 1), (1, 1)), ((2, 1), (1, 2))] if H.quick else [((1, 1), (1, 1)), ((2, 1), (1, 2)), ((1, 2), (2, 1)), ((2, 2), (2, 2))]):
                case_bsr(H, g1, g2, bsz[0], bsz[1], ('bsr', 'bsc'), pats if bsz[0] == (1, 1) else pats[::3])
        # layout dispatch of _sparse_csr_mm: csr x csr, csr x dense
        for modes in (('csr', 'csr'),):
            pats = list(itertools.product(_patterns(2, 2), _patterns(2, 2)))[::(9 if H.quick else 1)]
            case_bsr(H, (2, 2), (2, 2), (1, 1), (1, 1), modes, pats)
    except Exception as e:
        import traceback; traceback.print_exc()
        H.engine_error('sparse', e)
    return H.finish(explanation=EXPLAIN)
