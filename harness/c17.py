"""C17 - point-set alignment: svdtf / svdstf return the optimal transform (translation validation against Kabsch / Umeyama)."""
import torch
import z3

import pypose as pp
import pypose.function.geometry as geo
from symx import terms as T
from symx.engine import det_terms
from .common import *

EXPLAIN = ("svdtf / svdstf run under symx on N symbolic corresponding points with torch.linalg.svd replaced by its contract (U, Vh orthogonal, "
           "S sorted non-negative, M = U S Vh) and the final mat2SE3/mat2Sim3 conversion cut off (C11): for EVERY valid SVD of the "
           "cross-covariance the assembled transform must equal the textbook least-squares optimum - Kabsch: R = U diag(1,1,det(U Vh)) Vh, "
           "t = mean(target) - R mean(source); Umeyama: additionally c = (d1 + d2 + det(U Vh) d3)/var(source) - on both branches of the "
           "reflection test, and R must be a proper rotation. This is translation validation against the proven-optimal closed forms; that "
           "those closed forms minimise the residual is the cited theorem, not re-proved. ICP: with knn/svdtf of the iterations stubbed, the "
           "final alignment is computed from (source, init@source) - so the initial transform is part of the result. ICP monotonicity / "
           "convergence and EPnP recovery (topk over clouds, eigen-decomposition, iterated GN) are NOT within reach of the encoding.")


def case_T(H, name, pn, which, with_scale, sign, cdet, base, Tm, U, V, Sv, S, cs, ct, N, replay, Lsame, to):
    D = [[z3.RealVal(1 if i == j else 0) for j in range(3)] for i in range(3)]
    D[2][2] = z3.RealVal(sign)
    Rk = T.mm(T.mm(U, D), V)
    if which == 'svdstf' and with_scale:
        var = z3.Sum([(S[i][c] - cs[c]) * (S[i][c] - cs[c]) for i in range(N) for c in range(3)]) / N
        cscale = (Sv[0] + Sv[1] + sign * Sv[2]) / var
    else:
        cscale = z3.RealVal(1)
    tk = [ct[i] - cscale * z3.Sum([Rk[i][j] * cs[j] for j in range(3)]) for i in range(3)]
    want = [[cscale * Rk[i][j] for j in range(3)] + [tk[i]] for i in range(3)]
    light = base + [cdet == sign]
    for i in range(3):
        for j in range(4):
            d = Tm[i * 4 + j] - want[i][j]
            H.prove('%s/path%d/det=%+d/T[%d,%d]==textbook-optimum' % (name, pn, sign, i, j), light, Tm[i * 4 + j] == want[i][j], replay=replay,
                    key='C17/%s/optimal' % which, timeout=to, depends=[Lsame], linear=False, neg_margin=z3.Or(d > z3.RealVal('1/1000'), d < -z3.RealVal('1/1000')))
    # proper rotation: det of the rotation block of T / scale is +1  (R = U D Vh with det D = det(UVh))
    Rc = [[Tm[i * 4 + j] for j in range(3)] for i in range(3)]
    dUV = cdet
    if which == 'svdtf':
        # det(U D Vh) = det(D) det(U Vh) = sign * sign = 1: as a free polynomial identity det(R_code) == sign * det(U Vh)
        H.certify('%s/path%d/det(R)==sign*det(UVh)' % (name, pn), det_terms(T.flat(Rc), 3), sign * dUV, [], key='C17/%s/proper' % which, timeout=to, replay=replay)


def case_svd(H, which, N, with_scale=True):
    name = 'C17/%s/N=%d%s' % (which, N, '' if which == 'svdtf' else '/with_scale=%s' % with_scale)
    rec = {}

    def prog(m):
        S_, s_ = torch.randn(N, 3, dtype=DT), None
        Tg = torch.randn(N, 3, dtype=DT)
        ss, ts = m.symbolic(S_, 's'), m.symbolic(Tg, 't')
        real_se3, real_sim3 = geo.mat2SE3, geo.mat2Sim3

        def cut(Tm, check=True, **kw):
            rec['T'] = m.full_terms(Tm)
            return pp.identity_SE3(dtype=DT)
        geo.mat2SE3, geo.mat2Sim3 = cut, cut
        try:
            if which == 'svdtf':
                geo.svdtf(S_, Tg)
            else:
                geo.svdstf(S_, Tg, with_scale=with_scale)
        finally:
            geo.mat2SE3, geo.mat2Sim3 = real_se3, real_sim3
        sv = {k: [v for (nm, v) in sorted(((str(x), x) for x in m.ctx.env_vars(k)), key=lambda p: p[0])] for k in ('svdU', 'svdVh', 'svdS')} \
            if hasattr(m.ctx, 'env_vars') else None
        return rec['T'], ss, ts

    def battery():
        torch.manual_seed(4)
        sets = []
        for k_ in range(60):
            nb = (N, 4, 5, 6)[k_ % 4]           # incl. non-planar clouds: reflections with a non-zero third singular value
            s = torch.randn(nb, 3, dtype=DT)
            t = torch.randn(nb, 3, dtype=DT)
            sets.append((s, t))
        for _ in range(10):     # planar / noisy rigid copies
            s = torch.randn(N, 3, dtype=DT)
            s[:, 2] = 0
            R = pp.randn_SO3(dtype=DT)
            t = R.Act(s) + 0.05 * torch.randn(N, 3, dtype=DT)
            sets.append((s, t))
        return sets

    def replay(model):
        worst, info = 0.0, ''
        for s, t in battery():
            cs, ct = s.mean(0), t.mean(0)
            if which == 'svdtf':
                M = (t - ct).T @ (s - cs)
            else:
                M = (t - ct).T @ (s - cs) / s.shape[0]
            U, D, Vh = torch.linalg.svd(M)
            sg = torch.sign(torch.det(U @ Vh))
            Dg = torch.diag(torch.tensor([1.0, 1.0, sg.item()], dtype=DT))
            Rk = U @ Dg @ Vh
            if which == 'svdtf':
                Tm = pp.svdtf(s, t)
                got = ((Tm.Act(s) - t) ** 2).sum().item()
                ref = (((s @ Rk.T + (ct - Rk @ cs)) - t) ** 2).sum().item()
            else:
                Tm = pp.svdstf(s, t, with_scale=with_scale)
                var = ((s - cs) ** 2).sum(-1).mean()
                c = ((D * torch.diag(Dg)).sum() / var).item() if with_scale else 1.0
                got = ((Tm.Act(s) - t) ** 2).sum().item()
                ref = (((c * s @ Rk.T + (ct - c * Rk @ cs)) - t) ** 2).sum().item()
            gap = (got - ref) / (1 + ref)
            if gap > worst:
                worst, info = gap, 'det(UVh)=%+.0f' % sg.item()
        return worst > 1e-9, 'sum of squared residuals exceeds that of the textbook optimum by %.3g (relative) on a battery of point sets (%s)' % (worst, info)

    def on_raise(ctx, e):
        H.absorb(ctx)
        H.engine_error(name, e)

    for ctx, (Tm, ss, ts) in run_paths(H, name, prog, max_paths=8, raised=on_raise):
        pn = H.paths
        hyp = H.hyps_of(ctx)
        # stub variables of this path
        U = [[None] * 3 for _ in range(3)]
        V = [[None] * 3 for _ in range(3)]
        Sv = [None] * 3
        for nm in ctx.env:
            if nm.startswith('svdU_'):
                U[int(nm[5])][int(nm[6])] = z3.Real(nm)
            elif nm.startswith('svdVh_'):
                V[int(nm[6])][int(nm[7])] = z3.Real(nm)
            elif nm.startswith('svdS_'):
                Sv[int(nm[5])] = z3.Real(nm)
        dUV = det_terms([z3.simplify(e) for e in T.flat(T.mm(U, V))], 3)
        S = [ss[3 * i:3 * i + 3] for i in range(N)]
        Tg = [ts[3 * i:3 * i + 3] for i in range(N)]
        cs = [z3.Sum([S[i][c] for i in range(N)]) / N for c in range(3)]
        ct = [z3.Sum([Tg[i][c] for i in range(N)]) / N for c in range(3)]
        to = 30 if H.quick else 120
        facts = list(getattr(ctx, 'svd_det_facts', []))          # det(U Vh) in {+1,-1}: part of the SVD contract
        cdet = ctx.det_log[0][0]                                  # the determinant term the code itself computed (of U @ Vh)
        Lsame = H.certify('%s/path%d/lemma:code-det==det(UVh)' % (name, pn), cdet, dUV, [], key='C17/%s/optimal' % which)
        sqrt_defs = [z3.And(v >= 0, v * v == a) for (fn, _), (v, a) in ctx.tf.items() if fn == 'sqrt']
        base = [z3.Or(cdet == 1, cdet == -1)] + list(ctx.pc) + sqrt_defs
        feas = [sgn for sgn in (1, -1) if ctx.feasible_light([z3.Or(cdet == 1, cdet == -1), cdet == sgn]) != 'unsat']
        for sign in feas:
            case_T(H, name, pn, which, with_scale, sign, cdet, base, Tm, U, V, Sv, S, cs, ct, N, replay, Lsame, to)
        if not feas:
            H.engine_error(name, Exception('no feasible sign of det(U Vh) on path %d' % pn))
        continue
        H.reach('%s/path%d/reach' % (name, pn), hyp)


def case_icp_init(H):
    """ICP with the per-iteration kernels stubbed: the final alignment must be computed from the ORIGINAL source and the fully
    transformed cloud, so that a supplied initial transform is part of the returned pose"""
    name = 'C17/ICP/init-is-part-of-the-result'
    import pypose.module.icp as icpmod
    from pypose.utils.stepper import ReduceToBason

    def prog(m):
        src = torch.randn(4, 3, dtype=DT)
        tgt = torch.randn(4, 3, dtype=DT)
        ss = m.symbolic(src, 's')
        init, xs = sym_group(m, 'SE3', 'x', 401)
        calls = []
        real_knn, real_svdtf = icpmod.knn, icpmod.svdtf

        def stub_knn(a, b, k=1, ord=2, dim=-1, **kw):
            return torch.full((4, 1), 0.5, dtype=DT), torch.zeros(4, 1, dtype=torch.int64)

        def stub_svdtf(a, b):
            calls.append((m.full_terms(a), m.full_terms(b)))
            return pp.identity_SE3(dtype=DT)
        icpmod.knn, icpmod.svdtf = stub_knn, stub_svdtf
        try:
            pp.module.ICP(init=init, stepper=ReduceToBason(steps=2))(src, tgt)
        finally:
            icpmod.knn, icpmod.svdtf = real_knn, real_svdtf
        return calls, ss, xs

    def replay(model):
        torch.manual_seed(2)
        src = torch.randn(30, 3, dtype=DT)
        G = pp.SE3(torch.tensor([0.1, 0.05, -0.08, 0.02, 0.03, -0.02, 1.0], dtype=DT))
        G = pp.SE3(torch.cat([G.tensor()[:3], G.tensor()[3:] / G.tensor()[3:].norm()]))
        tgt = G.Act(src)
        init = pp.SE3(torch.tensor([0.05, 0.0, -0.02, 0.0, 0.01, 0.0, 1.0], dtype=DT))
        init = pp.SE3(torch.cat([init.tensor()[:3], init.tensor()[3:] / init.tensor()[3:].norm()]))
        out = pp.module.ICP(init=init)(src, tgt)
        e = (out.Act(src) - tgt).abs().max().item()
        return e > 1e-6, 'ICP with an initial transform does not recover a small exact rigid perturbation (max error %.3g)' % e

    for ctx, (calls, ss, xs) in run_paths(H, name, prog, max_paths=4):
        a, b = calls[-1]
        M = mat4('SE3', xs)
        want = []
        for i in range(4):
            want += T.mv(M, ss[3 * i:3 * i + 3] + [z3.RealVal(1)])[:3]
        hyp = H.hyps_of(ctx)
        H.prove(name + '/final-alignment-source', [], z3.And([x == y for x, y in zip(a, ss)]), replay=replay, key='C17/ICP/init')
        for i, (x, y) in enumerate(zip(b, want)):
            H.certify('%s/final-alignment-target[%d]' % (name, i), x, y, [unit_rel('SE3', xs)], hyps=hyp, replay=replay, key='C17/ICP/init')


def case_icp_second_call(H):
    """the same ICP module used for two consecutive registrations (odometry loop): the second call must iterate again (the
    controller is re-armed per call) - with stubbed kernels, it must ask for correspondences at least once and perform its final
    alignment on the second call's own clouds"""
    name = 'C17/ICP/second-call-on-the-same-module'
    import pypose.module.icp as icpmod
    from pypose.utils.stepper import ReduceToBason

    def prog(m):
        src, tgt = torch.randn(4, 3, dtype=DT), torch.randn(4, 3, dtype=DT)
        src2, tgt2 = torch.randn(4, 3, dtype=DT), torch.randn(4, 3, dtype=DT)
        s2 = m.symbolic(src2, 's')
        counts, finals = [0, 0], []
        which = [0]
        real_knn, real_svdtf = icpmod.knn, icpmod.svdtf

        def stub_knn(a, b, k=1, ord=2, dim=-1, **kw):
            counts[which[0]] += 1
            return torch.full((4, 1), 0.5 / counts[which[0]], dtype=DT), torch.zeros(4, 1, dtype=torch.int64)

        def stub_svdtf(a, b):
            finals.append((which[0], m.full_terms(a)))
            return pp.identity_SE3(dtype=DT)
        icpmod.knn, icpmod.svdtf = stub_knn, stub_svdtf
        try:
            icp = pp.module.ICP(stepper=ReduceToBason(steps=3))
            icp(src, tgt)
            which[0] = 1
            icp(src2, tgt2)
        finally:
            icpmod.knn, icpmod.svdtf = real_knn, real_svdtf
        last = [a for (w, a) in finals if w == 1]
        return counts, (last[-1] if last else None), s2

    def replay(model):
        torch.manual_seed(2)
        icp = pp.module.ICP()
        worst = 0.0
        for call in range(3):
            src = torch.randn(30, 3, dtype=DT)
            G = pp.SE3(torch.tensor([0.03, 0.02, -0.02, 0.01, 0.015, -0.01, 1.0], dtype=DT))
            G = pp.SE3(torch.cat([G.tensor()[:3], G.tensor()[3:] / G.tensor()[3:].norm()]))
            tgt = G.Act(src)
            out = icp(src, tgt)
            e = (out.Act(src) - tgt).abs().max().item()
            if call > 0:
                worst = max(worst, e)
        return worst > 1e-6, 'a second / third registration with the same ICP module does not recover a small exact rigid perturbation (max error %.3g)' % worst

    for ctx, (counts, fin, s2) in run_paths(H, name, prog, max_paths=4):
        H.prove(name + '/second-call-iterates', [], z3.BoolVal(counts[1] >= 1 and counts[1] == counts[0]), replay=replay, key='C17/ICP/reuse')
        H.prove(name + '/second-call-final-alignment-on-its-own-source', [], z3.BoolVal(fin is not None) if fin is None else z3.And([x == y for x, y in zip(fin, s2)]),
                replay=replay, key='C17/ICP/reuse')


def run(H):
    H.assumptions += ['exact real arithmetic', 'torch.linalg.svd meets its contract', 'the Kabsch / Umeyama closed forms are the least-squares optima (cited theorems)']
    H.bounds += ['N in {3, 4} symbolic corresponding points (the algebra does not depend on N beyond the centroids)', 'single batch']
    jobs = [lambda: case_svd(H, 'svdtf', 3), lambda: case_svd(H, 'svdstf', 3, True), lambda: case_svd(H, 'svdstf', 3, False), lambda: case_icp_init(H), lambda: case_icp_second_call(H)]
    if not H.quick:
        jobs += [lambda: case_svd(H, 'svdtf', 4), lambda: case_svd(H, 'svdstf', 4, True)]
    for j in jobs:
        try:
            j()
        except Exception as e:
            import traceback; traceback.print_exc()
            H.engine_error('c17', e)
    return H.finish(explanation=EXPLAIN)
