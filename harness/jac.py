"""Generic Jacobian checker: hand-written backward (real autograd under the engine) vs the symbolic derivative of the
forward terms in pypose's convention (ordinary for Euclidean/algebra values, left perturbation Exp(tau)@X for group values)."""
import torch
import z3

import pypose as pp
from symx import terms as T
from symx.terms import diff, subst
from .common import *


def first_order_element(g, tau):
    """P(tau): group element equal to Exp(tau) up to O(|tau|^2): quaternion (phi/2, 1), translation tau, scale 1+sigma"""
    ta, ph, sg = aparts(g, tau)
    q = [p / 2 for p in ph] + [z3.RealVal(1)]
    out = []
    if ta is not None:
        out += list(ta)
    out += q
    if sg is not None:
        out.append(1 + sg)
    return out


def gmul(g, a, b):
    """oracle group product on flat component lists (independent of pypose's formulas)"""
    ta, qa, sa = parts(g, a)
    tb, qb, sb = parts(g, b)
    q = T.quat_mul(qa, qb)
    out = []
    if ta is not None:
        Rm = T.quat_rot(qa)
        if sa is not None:
            Rm = T.mscale(sa, Rm)
        out += [u + v for u, v in zip(ta, T.mv(Rm, tb))]
    out += q
    if sa is not None:
        out.append(sa * sb)
    return out


def tangent_basis(g, x, tag):
    """B[l][j] = d (P(tau) @ x)_l / d tau_j at tau = 0   (gdim x adim), exact symbolic derivative"""
    n = ADIM[g]
    taus = [z3.Real('tau_%s_%d' % (tag, j)) for j in range(n)]
    y = gmul(g, first_order_element(g, taus), x)
    zero = [(t, z3.RealVal(0)) for t in taus]
    B = [[subst(diff(yl, t), zero) for t in taus] for yl in y]
    return B


class Val:
    """a program input/output: kind 'group' (with group name) or 'vec'"""
    def __init__(self, kind, tensor, vars_, group=None):
        self.kind, self.tensor, self.vars, self.group = kind, tensor, vars_, group


def small_regime(ctx):
    """True if the path condition confines some quantity below a tiny threshold (a Taylor / small-angle branch)"""
    for pred, taken, _ in ctx.trace:
        p = z3.simplify(pred if taken else z3.Not(pred))
        if z3.is_app(p) and p.decl().kind() in (z3.Z3_OP_LE, z3.Z3_OP_LT):
            a, b = p.children()
            for c in (a, b):
                if z3.is_rational_value(c) and 0 < c.numerator_as_long() and c.numerator_as_long() * 1000000 < c.denominator_as_long():
                    return True
            # forms like  c*x <= y are not small-regime markers
    return False


def small_regime_deep(ctx):
    """like small_regime, but also looks inside conjunctions of the path condition (mask decisions such as
    (|v| > eps) & (|w| <= eps) are single compound predicates)"""
    def tiny(c):
        return z3.is_rational_value(c) and 0 < c.numerator_as_long() and c.numerator_as_long() * 1000000 < c.denominator_as_long()

    def walk(p):
        if z3.is_and(p):
            return any(walk(c) for c in p.children())
        if z3.is_app(p) and p.decl().kind() in (z3.Z3_OP_LE, z3.Z3_OP_LT):
            return any(tiny(c) for c in p.children())
        return False
    for pred, taken, _ in ctx.trace:
        if walk(z3.simplify(pred if taken else z3.Not(pred))):
            return True
    return False


def check_jacobian(H, name, build, key, rels_extra=(), timeout=None, use_cert=True, track_poison=False, max_paths=8,
                   only_inputs=None, skip_padding=False, assume_fn=None, lemma_hyps=None, small_tol='1/' + '1' + '0' * 30):
    """build(m) -> (inputs: list[Val], out_tensor, out_kind ('vec'|'group'), out_group, replay_fn or None)
    replay_fn(env) -> program callable on concrete tensors for numeric replay (finite differences are NOT used as oracle:
    the replay compares autograd with the numeric value of the symbolic oracle at the model point)."""
    results = []
    solo_terms = {}

    def program(m):
        ins, fwd, okind, ogroup, concrete_prog = build(m)
        for v in ins:
            v.tensor.requires_grad_(True)
        out = fwd()
        out_t = out.tensor() if isinstance(out, pp.LieTensor) else out
        yt = m.full_terms(out_t)
        gen = torch.Generator().manual_seed(99)
        g = torch.randn(out_t.shape, dtype=out_t.dtype, generator=gen)
        gs = m.symbolic(g, 'g')
        grads = torch.autograd.grad(out_t, [v.tensor for v in ins], grad_outputs=g, allow_unused=True)
        gts = [m.full_terms(gr) if gr is not None else None for gr in grads]
        pts = [m.poisons(gr) if gr is not None and track_poison else None for gr in grads]
        # configurations: the same program with only ONE input requiring grad (backward passes may consult needs_input_grad)
        solo_terms.clear()
        if len(ins) > 1:
            for vi, v in enumerate(ins):
                for w in ins:
                    w.tensor.requires_grad_(w is v)
                out2 = fwd()
                out2_t = out2.tensor() if isinstance(out2, pp.LieTensor) else out2
                gr2 = torch.autograd.grad(out2_t, [v.tensor], grad_outputs=g, allow_unused=True)[0] if out2_t.requires_grad else None
                solo_terms[vi] = m.full_terms(gr2) if gr2 is not None else None
            for w in ins:
                w.tensor.requires_grad_(True)
        return ins, yt, okind, ogroup, gs, gts, pts, concrete_prog, m, out_t, grads

    for ctx, (ins, yt, okind, ogroup, gs, gts, pts, concrete_prog, m, out_t, grads) in run_paths(
            H, name, program, track_poison=track_poison, max_paths=max_paths):
        selftest(H, ctx, m, [(yt, out_t)] + [(gt, gr) for gt, gr in zip(gts, grads) if gt is not None], name)
        pn = H.paths
        hyp = H.hyps_of(ctx)
        if assume_fn is not None:
            hyp = hyp + assume_fn(ctx, ins)
        rels = [unit_rel(v.group, v.vars) for v in ins if v.kind == 'group'] + list(rels_extra)
        nout = len(yt)
        allvars = [str(x) for v in ins for x in v.vars] + [str(x) for x in gs]

        def mk_replay(vi, ins=ins, gs=gs, ctx=ctx, yt=yt, solo=False):
            def replay(model):
                if concrete_prog is None:
                    return False, 'no concrete replay'
                env = {n: float(model.get(n, 0.0)) for n in allvars}
                tens = []
                env2 = dict(env)
                for v in ins:
                    t = tensor_from_env(names_of(v.vars), env)
                    if v.kind == 'group':
                        t = normalize_group(v.group, t)
                    for nm, val in zip(names_of(v.vars), t.tolist()):
                        env2[nm] = val
                    tens.append(t.clone().requires_grad_((not solo) or len(tens) == vi))
                out = concrete_prog(*tens)
                out = out.tensor() if isinstance(out, pp.LieTensor) else out
                v = ins[vi]
                n = ADIM[v.group] if v.kind == 'group' else tens[vi].numel()
                nk = ADIM[ogroup] if okind == 'group' else out.numel()
                # autograd Jacobian, one cotangent basis vector at a time (rows: output slots in the cotangent convention)
                Jag = torch.zeros(nk, n, dtype=DT)
                pad = 0.0
                for kk in range(nk):
                    gten = torch.zeros(out.numel(), dtype=DT)
                    gten[kk] = 1.0
                    gr = torch.autograd.grad(out, [tens[vi]], grad_outputs=gten.view(out.shape), allow_unused=True, retain_graph=True)[0] \
                        if out.requires_grad else None
                    if gr is None:
                        continue        # no gradient returned: a zero row, judged against the numeric Jacobian below
                    if not torch.isfinite(gr).all():
                        return True, 'gradient contains NaN/Inf at %s' % {k: round(vv, 6) for k, vv in list(env2.items())[:12]}
                    Jag[kk] = gr.reshape(-1)[:n]
                    if gr.numel() > n:
                        pad = max(pad, gr.reshape(-1)[n:].abs().max().item())
                # full-width cotangents (non-zero in the slot a group-valued output ignores): the padding slot must stay zero
                if out.requires_grad and v.kind == 'group':
                    for gten in (torch.ones(out.numel(), dtype=DT), torch.arange(1, out.numel() + 1, dtype=DT)):
                        gr = torch.autograd.grad(out, [tens[vi]], grad_outputs=gten.view(out.shape), allow_unused=True, retain_graph=True)[0]
                        if gr is not None and gr.numel() > n:
                            pad = max(pad, gr.reshape(-1)[n:].abs().max().item())
                # numeric Jacobian by central differences in the documented convention (used only to CONFIRM a solver
                # counterexample on the real code, never to decide the property)
                Jfd = torch.zeros(nk, n, dtype=DT)
                h = 1e-6
                for jj in range(n):
                    d = torch.zeros(n, dtype=DT)
                    d[jj] = h
                    outs = []
                    for sgn in (1, -1):
                        args = [t.detach().clone() for t in tens]
                        if v.kind == 'group':
                            args[vi] = (pp.LieTensor(sgn * d, ltype=ATYPE[v.group]).Exp() @ pp.LieTensor(args[vi], ltype=GTYPE[v.group])).tensor()
                        else:
                            args[vi] = args[vi] + sgn * d.view(args[vi].shape)
                        o = concrete_prog(*args)
                        outs.append(o.tensor() if isinstance(o, pp.LieTensor) else o)
                    if okind == 'group':
                        Yp = pp.LieTensor(outs[0], ltype=GTYPE[ogroup])
                        Ym = pp.LieTensor(outs[1], ltype=GTYPE[ogroup])
                        Jfd[:, jj] = (Yp @ Ym.Inv()).Log().tensor() / (2 * h)
                    else:
                        Jfd[:, jj] = ((outs[0] - outs[1]) / (2 * h)).reshape(-1)
                err = (Jag - Jfd).abs().max().item()
                # central differences carry a round-off error of about eps * |values| / h: with huge coordinates in the solver's model
                # (e.g. a translation of 1e129) they cannot confirm anything, and the candidate stays inconclusive rather than becoming an alarm
                mag = max([1.0] + [t.detach().abs().max().item() for t in tens if t.numel()] + [o_.abs().max().item() for o_ in outs if o_.numel()])
                bad = err > 1e-4 * (1 + Jfd.abs().max().item()) + 1e-8 * mag or pad > 1e-12 * mag
                return bad, 'autograd Jacobian vs central differences (left-perturbation convention): max err %.3g, padding slot %.3g at %s' % (
                    err, pad, {k: round(vv, 5) for k, vv in list(env2.items())[:14]})
            return replay

        BY = tangent_basis(ogroup, yt, 'out') if okind == 'group' else None
        for vi, v in enumerate(ins):
            if only_inputs is not None and vi not in only_inputs:
                continue
            gt = gts[vi]
            if gt is None:
                H.prove('%s/path%d/in%d/has-gradient' % (name, pn, vi), [], z3.BoolVal(False), key=key, replay=mk_replay(vi))
                continue
            rp = mk_replay(vi)
            if vi in solo_terms:
                rps = mk_replay(vi, solo=True)
                if solo_terms[vi] is None:
                    H.prove('%s/path%d/in%d/only-this-input-requires-grad/has-gradient' % (name, pn, vi), [], z3.BoolVal(False), key=key, replay=rps)
                else:
                    for j, (a_, b_) in enumerate(zip(solo_terms[vi], gt)):
                        H.prove('%s/path%d/in%d/only-this-input-requires-grad/grad[%d]' % (name, pn, vi, j), hyp, a_ == b_, key=key, replay=rps, timeout=10)
            nin = ADIM[v.group] if v.kind == 'group' else len(v.vars)
            # J_code[k][j] = d grad_j / d g_k  (grad is linear in g)
            Jc = [[diff(gt[j], gs[k]) for j in range(len(gt))] for k in range(nout)]
            # oracle derivative of the forward terms
            if v.kind == 'group':
                Bx = tangent_basis(v.group, v.vars, 'in%d' % vi)
                dY = [[diff(yt[i], xl, ctx.tfvar, ctx) for xl in v.vars] for i in range(nout)]
                D = [[z3.simplify(z3.Sum([dY[i][l] * Bx[l][j] for l in range(len(v.vars))])) for j in range(nin)] for i in range(nout)]
            else:
                D = [[diff(yt[i], v.vars[j], ctx.tfvar, ctx) for j in range(nin)] for i in range(nout)]
            hyp2 = H.hyps_of(ctx) + (assume_fn(ctx, ins) if assume_fn is not None else []) + (lemma_hyps(ctx, ins) if lemma_hyps else [])
            for i in range(nout):
                for j in range(nin):
                    if okind == 'group':
                        lhs = z3.simplify(z3.Sum([BY[i][k] * Jc[k][j] for k in range(ADIM[ogroup])]))
                    else:
                        lhs = Jc[i][j]
                    nm = '%s/path%d/in%d/J[%d,%d]' % (name, pn, vi, i, j)
                    if small_tol is not None and small_regime(ctx):
                        # truncated-series branch: agreement up to the truncation error (far below round-off)
                        dd = lhs - D[i][j]
                        tl = z3.RealVal(small_tol)
                        H.prove(nm + '/small-regime', hyp2, z3.And(dd <= tl, dd >= -tl), key=key, replay=rp, timeout=timeout,
                                neg_margin=z3.Or(dd > z3.RealVal('1/1000'), dd < -z3.RealVal('1/1000')))
                    elif use_cert:
                        H.certify(nm, lhs, D[i][j], rels, key=key, replay=rp, hyps=hyp2, timeout=timeout)
                    else:
                        dd = lhs - D[i][j]
                        H.prove(nm, hyp2, lhs == D[i][j], key=key, replay=rp, timeout=timeout,
                                neg_margin=z3.Or(dd > z3.RealVal('1/1000'), dd < -z3.RealVal('1/1000')))
            # structure: padding slot of a group input's gradient is zero; ignored cotangent slot of a group output
            if v.kind == 'group' and not skip_padding:
                for j in range(nin, len(gt)):
                    H.prove('%s/path%d/in%d/padding[%d]==0' % (name, pn, vi, j), hyp2, gt[j] == 0, key=key, replay=rp)
            if track_poison and pts[vi] is not None:
                ps = [p for p in pts[vi] if p is not None]
                if ps:
                    H.prove('%s/path%d/in%d/finite' % (name, pn, vi), hyp2, z3.Not(z3.Or(ps)), key=key + '/finite', replay=rp)
        if pn % 5 == 0:
            H.reach('%s/path%d/reach' % (name, pn), hyp)
