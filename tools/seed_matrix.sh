#!/bin/bash
# runs every seeded change against the quick check of its property; writes seeded/RESULTS.tsv
cd /verif
out=seeded/RESULTS.tsv
echo -e "seed\tcheck\texit\tverdict" > $out
for d in seeded/*/; do
  n=$(basename $d)
  id=$(python3 -c "import json;print(json.load(open('$d/meta.json'))['property'])")
  chk=$id
  [ "$n" = "C19-1" ] && chk=C17
  [ -f $d/patch.diff ] || continue
  r=$(tools/seedtest.sh $n $chk quick 2>&1 | head -1)
  rc=$(echo "$r" | grep -oE "exit [0-9]+" | grep -oE "[0-9]+")
  v="MISSED"; [ "$rc" = "1" ] && v="caught"; [ "$rc" != "0" ] && [ "$rc" != "1" ] && v="error($rc)"
  echo -e "$n\t$chk\t$rc\t$v" >> $out
  echo "$n $chk $rc $v"
done
