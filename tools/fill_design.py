#!/usr/bin/env python3
"""fills the seeded-change and fix tables of DESIGN.md from seeded/RESULTS.tsv, seeded/*/meta.json and known_findings.json"""
import json, os, re
V = '/verif'
res = {}
p = os.path.join(V, 'seeded/RESULTS.tsv')
if os.path.exists(p):
    for l in open(p).read().splitlines()[1:]:
        n, chk, rc, v = l.split('\t')
        res[n] = (chk, v)
SHORT = {
 'C01-1': 'sim3/rxso3 coefficient C back to (e^σ-1)/σ (cancellation for tiny σ)', 'C01-2': 'quaternion real part sqrt(1-sin²) (wrong sign for θ in (π,3π))',
 'C02-1': 'near-π branch uses sign(w) (Log = 0 for exact half turns)', 'C03-2': 'lru_cache on identity constructors (stale after in-place update)',
 'C04-1': 'so3_Jl_inv coefficient under no_grad (Jinvp X-gradient loses a term)', 'C04-2': 'SE3_Act4.backward point gradient drops the translation column',
 'C05-1': 'Jr uses the left-Jacobian series for 0<|x|<=1e-3', 'C05-2': 'Jinvp via cot(θ/2)=w/|v| (wrong for w<0)',
 'C06-1': 'SO3 Log flips the caller\'s quaternion in place when w<0', 'C06-2': 'retain_ltype nesting counter not decremented when the body raises',
 'C07-1': 'lower-rank weight blocks expanded with repeat_interleave (wrong order)', 'C07-2': 'LM retry damping uses diag(A_0) instead of diag(A_(k-1))',
 'C08-1': 'reject_count no longer reset per call', 'C08-2': 'TrustRegion drops the down-factor reset of the middle branch',
 'C09-1': 'Huber via torch.where (NaN slope at exactly zero residual)', 'C09-2': 'Triggs mask uses (R==0).any(-1) (Hessian term lost for rows with a zero component)',
 'C10-1': 'CG convergence test on the preconditioned residual', 'C10-2': 'bsr_bsc_matmul inner loop over block rows instead of block columns',
 'C11-1': 'mat2SO3 branch masks leave R00==R11 unselected (NaN)', 'C11-2': 'rank guard tests det instead of scale (valid small scales rejected)',
 'C12-1': 'stride table truncated at 1024 (L>=2049 wrong)', 'C12-2': 'cumops_ works on a contiguous copy (non-contiguous input not overwritten)',
 'C13-1': 'EKF gain with pinv(rtol=1e-5) (truncates ill-conditioned S)', 'C13-2': 'UKF caches sigma weights without k',
 'C14-1': 'first clock reset removed (nominal roll-out on a stale clock)', 'C14-2': 'Quu solved with pinv(rtol=1e-5)',
 'C15-1': 'set_refpoint treats t*=0 as "not given"', 'C15-2': 'LTI.observation guards c2 by c1',
 'C16-1': 'gravity removed with the module\'s stored rotation instead of init_state', 'C16-2': 'predict rotates the initial velocity term',
 'C17-1': 'svdstf scale drops the reflection weight', 'C17-2': 'ICP loses the initial transform from the result',
 'C18-1': 'knn_filter radius mask always uses the L2 norm', 'C18-2': 'knn via cdist (float cancellation far from the origin, N>25)',
 'C19-1': 'svdstf R = U V M (wrong for reflections; affects ape(align))', 'C19-2': 'bspline samples at m/k instead of m*interval',
 'C20-1': 'reset() no longer restores `last`', 'C20-2': 'StopOnPlateau stops only when reject_count >= reject',
 # second round (agents told what the first round had produced and asked for something different)
 'C01-3': 'rxso3_Ws: coefficient of I stays 0 for |σ|<=eps, θ>eps (mask slip; sim3 translation loses 1·τ)',
 'C01-4': 'so3_Exp small-angle branch widened to θ<=1e-2 with the θ⁴ terms dropped (1e5 eps norm error in float64)',
 'C02-3': 'generic Log branch atan(|v|/w) -> atan2(|v|, w) (angle in (π,2π) for w<0)',
 'C02-4': 'RxSO3_Inv clamps the scale at 1e-3 (Inv wrong for small scales)',
 'C04-3': 'Mul.backward consults needs_input_grad; Sim3 right operand tests index 0 (no gradient when only Y requires grad)',
 'C04-4': 'Mul.backward returns grad_output unsliced for the left operand (padding slot leaks the ignored cotangent slot)',
 'C05-3': 'SO3 Adj fast path for one rotation x batch of vectors computes R^T a (no-grad, broadcast shape only)',
 'C05-4': 'SE3 Jinvp caches the inverse Jacobian on the pose object (stale after in-place update)',
 'C07-3': 'Adaptive strategy stores its damping bounds as min/max group defaults, overriding LM(min=, max=) clamps',
 'C07-4': 'LM skips the trial when |J^T R|^2 < eps (absolute test; small-scale problems never move)',
 'C10-3': 'Cholesky assert any(info==0) instead of not any(info!=0) (mixed PD / non-PD batches return garbage)',
 'C10-4': 'CG returns the initial guess instead of b when b == 0',
 'C11-3': 'mat2SO3(check=True) tests unit rows + det instead of R R^T = I (sheared matrices accepted)',
 'C11-4': 'euler() multiplies the quaternion by sign(w) (NaN for exact half turns, w == 0)',
 'C13-3': 'PF covariance as E[xx^T] - x x^T (float cancellation far from the origin)',
 'C13-4': 'UKF `k = k or 3-n` (explicit k=0 replaced; negative centre weight for n>=4)',
 'C16-3': 'gravity=None default with `gravity or 9.81007` (gravity=0 silently replaced)',
 'C16-4': 'single-frame fast path removes gravity with the initial instead of the integrated rotation',
 'C19-3': 'timestamp association by searchsorted: first stamp inside the window instead of the nearest',
 'C19-4': 'geodesic_loss closed form whose small-angle branch drops the factor 2',
 'C03-3': 'SO3_Mul multiplies the product by sign(w) (zero quaternion for exact half-turn products)',
 'C03-4': 'RxSO3/Sim3 product scale clamped at eps instead of tiny (products of very small scales)',
 'C06-3': 'calcQ takes a closed-form fast path if ANY item is regular (NaN for zero-rotation items of a mixed batch)',
 'C06-4': 'matching_time_indices adds the offset in place (caller\'s float64 stamps shifted)',
 'C08-3': 'Adaptive clamps the damping with the optimizer\'s min/max instead of its own',
 'C08-4': 'LM restores rejected trials from a backup that aliases the parameter after the first restore',
 'C09-3': 'auto-selected correctors skip None kernels (Huber correction applied to the un-kernelled residual of [None, Huber])',
 'C09-4': 'PseudoHuber asserts on the hoisted sqrt argument (inputs in [-delta^2, 0) accepted)',
 'C12-3': 'cumops_ as a slice scan on transpose(0, dim) written back with movedim (wrong for dim >= 2)',
 'C12-4': 'cumprod(left=False) on plain tensors folds with * instead of @ (shared lambda table)',
 'C14-3': 'LQR skips the nominal roll-out when x_init/u_traj are the same tensor objects as last call (buffer updated in place)',
 'C14-4': 'reported LQR cost computed from the control increment instead of the control (non-zero nominal inputs)',
 'C15-3': 'NLS.c1/c2 subtract in place from the cached reference values (second read drifts)',
 'C15-4': 'time advanced inside forward() instead of by the forward hook (subclasses overriding forward never advance)',
 'C17-3': 'EPnP: constructor intrinsics take precedence over the ones passed to forward()',
 'C17-4': 'ICP resets its stepper in __init__ only (second call on the same module returns init)',
 'C18-3': 'nbr_filter excludes coincident points from the neighbour count (dist > 0)',
 'C18-4': 'voxel_filter keys voxels by a float row-major index (float32 collisions on grids > 2^24 cells)',
 'C20-3': 'ReduceToBason budget test == instead of >= (never hit after MPC decrements max_steps to 0)',
 'C20-4': 'StopOnPlateau re-arms _continual on every call (continual() true again after a stop)',
 # fourth batch (agents told about all four earlier changes of their property)
 'C01-5': 'rxso3_Ws masks sigma in place on a view of the caller\'s twist (scale e instead of 1 for log-scale 0; input overwritten)',
 'C01-6': 'rxso3_Ws "rotation-free" shortcut guarded by not all() instead of not any() (mixed batches lose A K + B K^2)',
 'C02-5': 'Sim3_Log inverts the coupling matrix in float32 for every dtype (float64 Log loses 9 digits)',
 'C02-6': 'RxSO3_Log snaps scales with |s-1| < sqrt(eps) to sigma = 0',
 'C04-5': 'SE3 Act fast path (matrix form) for one pose and >= 512 points: quaternion gradient instead of the left-perturbation Jacobian',
 'C04-6': 'so3_Jl switches at theta > 0 instead of eps (NaN gradients where theta^3 underflows)',
 'C05-5': 'the step of + / add_ is wrapped to (-pi, pi] before Exp (SE3/Sim3 translation is not periodic)',
 'C05-6': 'SE3/Sim3 AdjT invert each pose once and tile with repeat (wrong pairing for a non-leading size-1 batch axis)',
 'C07-5': 'flatten_row_jacobian zips all Jacobian blocks with the trainable numels (frozen-first parameter: wrong block)',
 'C07-6': 'auto correctors filtered for None kernels (same mutation as C09-3, found independently)',
 'C10-5': 'Cholesky solve step ignores upper=True',
 'C10-6': 'PINV caches pinv(A) by tensor identity (stale after an in-place update of A)',
 'C11-5': 'from_matrix passes (atol, rtol) positionally into (rtol, atol)',
 'C11-6': 'euler() gimbal margin max(eps, sqrt(finfo.eps)): wider fallback band in float32',
 'C13-5': 'PF likelihood via solve_triangular(left=False) on row residuals (wrong quadratic form for non-diagonal R)',
 'C13-6': 'UKF adds finfo.eps * I to P before the matrix square root (float32, small covariances)',
 'C16-5': 'carried rotation taken from the supplied known rotation instead of the integrated one',
 'C16-6': 'initial covariance propagated as A C A instead of A C A^T',
 'C19-5': 'default transform of ape/rpe is an lru_cached identity that origin=True overwrites in place',
 'C19-6': 'pairs_by_dist starts the path at the world origin (distance pairing depends on absolute position)',
 'C03-5': 'so3_Exp series switch at the fixed angle 1e-4 with a first-order series (|q|^2 = 1 + θ²/4: float64 only)',
 'C03-6': 'single-transform Act fast path for >= 4096 points uses the rotation without the scale for RxSO3',
 'C06-5': 'LieTensor.Act left-aligns the batch dims when the leading dims of the points equal lshape (breaks right-aligned broadcasting)',
 'C06-6': 'matrix() caches the identity already viewed for the batch rank of the first caller (wrong rank for later lower-rank calls)',
 'C08-5': 'LM reject branch no longer resets self.loss (stale loss returned when the solver raises after a rejected trial)',
 'C08-6': 'RobustModel.loss zips kernels with residual blocks (tuple-valued model + one kernel: only the first block counted)',
 'C09-5': 'FastTriggs Jacobian-row scales via repeat_interleave(dim=0) (tiled instead of interleaved for residuals with two batch dims)',
 'C09-6': 'Triggs.compute_grads: enable_grad narrowed + except RuntimeError -> rho\'\' silently 0 under no_grad (inside GN/LM)',
 'C12-5': 'cumprod / cumprod_ re-normalise the quaternion of the result (not the exact product for non-unit quaternions)',
 'C12-6': 'negative dim wrapped with the lshape rank instead of the tensor rank (scan along the wrong axis)',
 'C14-5': 'compact Q / p spread over the horizon with repeat+view (weights mixed across batch items)',
 'C14-6': 'control-increment buffer allocated in the default dtype (float32 round trip inside float64 solves)',
 'C15-5': 'systime setter rebinds _t to the caller\'s tensor (clock aliases user tensors / other systems)',
 'C15-6': 'NLS Jacobians cached per reference point; cache kept by an argument-less set_refpoint()',
 'C17-5': 'knn via torch.cdist (matmul path for > 25 points: float32 cancellation far from the origin)',
 'C17-6': 'svdtf reflection test by sign(det(M)) instead of det(U Vh) (wrong for rank-deficient cross-covariances)',
 'C18-5': 'pixel2point fills a new_empty buffer that inherits the pixels\' dtype (int64 pixel grid: truncation)',
 'C18-6': 'homo2cart clamps |w| at finfo.eps instead of finfo.tiny',
 'C20-5': 'ReduceToBason relative decrease divided by the previous loss instead of the current one',
 'C20-6': 'ReduceToBason tol test on |loss| (negative losses never stop by tol)',
}
rows = ['| change | what it does | run against | quick check |', '|---|---|---|---|']
names = sorted(d for d in os.listdir(os.path.join(V, 'seeded')) if os.path.isdir(os.path.join(V, 'seeded', d)))
for n in names:
    if n.startswith('FIX-'):
        continue
    chk, v = res.get(n, ('?', 'not run'))
    rows.append('| %s | %s | %s | %s |' % (n, SHORT.get(n, ''), chk, v))
kf = json.load(open(os.path.join(V, 'known_findings.json')))
frows = ['| commit | property | defect on the pinned tree | reverse patch | caught by quick check |', '|---|---|---|---|---|']
for k in kf:
    n = [d for d in names if d.startswith('FIX-') and d.endswith(k['commit'])]
    n = n[0] if n else ''
    chk, v = res.get(n, ('?', 'not run'))
    frows.append('| %s | %s | %s | %s | %s (%s) |' % (k['commit'], k['property'], k['what'], n, v, chk))
caught = sum(1 for n in names if res.get(n, ('', ''))[1].startswith('caught'))
missed = [n for n in names if res.get(n, ('', ''))[1] == 'MISSED']
summary = '\n\n%d of %d stored changes are caught by the quick check of their property; missed: %s.' % (caught, len([n for n in names if n in res]), ', '.join(missed) or 'none')
s = open(os.path.join(V, 'DESIGN.md')).read()
s = re.sub(r'<!--SEED_TABLE-->.*?<!--/SEED_TABLE-->|SEED_TABLE_PLACEHOLDER', lambda m: '<!--SEED_TABLE-->\n' + '\n'.join(rows) + summary + '\n<!--/SEED_TABLE-->', s, flags=re.S)
s = re.sub(r'<!--FIX_TABLE-->.*?<!--/FIX_TABLE-->|FIX_TABLE_PLACEHOLDER', lambda m: '<!--FIX_TABLE-->\n' + '\n'.join(frows) + '\n<!--/FIX_TABLE-->', s, flags=re.S)
open(os.path.join(V, 'DESIGN.md'), 'w').write(s)
print(caught, 'caught;', 'missed:', missed)
