#!/bin/bash
# usage: tools/seedtest.sh <seed-dir-name> [check-id] [tier]  -- apply seeded/<name>/patch.diff to /repo, run the check, undo.
N=$1; ID=${2:-${N%%-*}}; TIER=${3:-quick}
cd /verif
if [ -n "$(git -C /repo status --porcelain --untracked-files=no)" ]; then echo "/repo dirty"; exit 2; fi
git -C /repo apply /verif/seeded/$N/patch.diff || { echo "patch failed"; exit 3; }
cp evidence/$ID.json /tmp/ev_$ID.bak 2>/dev/null
timeout 3000 bin/vcheck $ID --tier $TIER > /tmp/seedtest_$N.log 2>&1; RC=$?
git -C /repo checkout -- .
cp /tmp/ev_$ID.bak evidence/$ID.json 2>/dev/null
echo "seed $N check $ID tier $TIER -> exit $RC"; grep -E "^VIOLATION|^KNOWN|^HARNESS|^\[" /tmp/seedtest_$N.log | head -5
