#!/bin/bash
# usage: tools/verify_seed.sh <ID> <k> [srcdir] [destk]  -- verifies <srcdir>/patch<k>.diff + demo<k>.py (default /tmp/mut_out/<ID>) in a
# scratch worktree and, if all claims hold, stores it as /verif/seeded/<ID>-<destk>/
ID=$1; K=$2; SRC=${3:-/tmp/mut_out/$ID}; DK=${4:-$K}; WT=/tmp/seedwt_${ID}_${DK}_$$
git -C /repo worktree add -q --detach $WT HEAD || exit 2
cd $WT
run() { PYTHONPATH=$WT timeout 600 /venv/bin/python "$@"; }
run $SRC/demo$K.py > /tmp/seed_${ID}_${DK}.base.log 2>&1; BASE=$?
if ! git apply --check $SRC/patch$K.diff 2>/dev/null; then echo "$ID-$DK: patch does not apply"; git -C /repo worktree remove --force $WT; exit 3; fi
git apply $SRC/patch$K.diff
run $SRC/demo$K.py > /tmp/seed_${ID}_${DK}.mut.log 2>&1; MUT=$?
PYTHONPATH=$WT timeout 900 /venv/bin/python -m pytest -q -p no:cacheprovider --timeout=900 tests 2>&1 | grep -E "^(FAILED|ERROR)|passed|failed" | sort > /tmp/seed_${ID}_${DK}.tests.log
NPASS=$(grep -oE "[0-9]+ passed" /tmp/seed_${ID}_${DK}.tests.log | grep -oE "[0-9]+")
NFAIL=$(grep -c "^FAILED" /tmp/seed_${ID}_${DK}.tests.log)
cd /; git -C /repo worktree remove --force $WT
echo "$ID-$DK: demo base=$BASE mutated=$MUT tests passed=$NPASS failed=$NFAIL"
if [ "$BASE" = "0" ] && [ "$MUT" != "0" ] && [ "$NPASS" -ge 85 ] && [ "$NFAIL" -le 7 ]; then
  D=/verif/seeded/$ID-$DK; mkdir -p $D
  cp $SRC/patch$K.diff $D/patch.diff; cp $SRC/demo$K.py $D/demo.py; cp $SRC/notes$K.md $D/notes.md 2>/dev/null
  python3 - <<PY
import json
json.dump({"property":"$ID","source":"independent sub-agent given only the property text","needs":open("$SRC/notes$K.md").read()[:1500] if __import__('os').path.exists("$SRC/notes$K.md") else "",
 "verified":{"demo_exit_unchanged":$BASE,"demo_exit_mutated":$MUT,"tests_passed":$NPASS,"tests_failed_network":$NFAIL,
 "commands":["PYTHONPATH=<worktree> /venv/bin/python demo.py (unchanged -> 0, with patch -> non-zero)","PYTHONPATH=<worktree> /venv/bin/python -m pytest -q tests (85 passed, 7 network failures, unchanged)"]}},
 open("$D/meta.json","w"),indent=1)
PY
  echo "  stored $D"
else
  echo "  NOT stored"; tail -3 /tmp/seed_${ID}_${DK}.mut.log
fi
