#!/bin/bash
# usage: tools/run_all.sh [quick|thorough] [IDs...]  -- runs the registered checks sequentially, prints one summary line each
TIER=${1:-quick}; shift
IDS=${@:-C01 C02 C03 C04 C05 C06 C07 C08 C09 C10 C11 C12 C13 C14 C15 C16 C17 C18 C19 C20}
cd /verif
for id in $IDS; do
  s=$(date +%s)
  timeout 14000 bin/vcheck $id --tier $TIER > /tmp/runall_$id.log 2>&1; rc=$?
  e=$(date +%s)
  echo "$id rc=$rc $((e-s))s $(grep -E "^\[$id" /tmp/runall_$id.log | head -1)"
  grep -E "^VIOLATION|^HARNESS|^KNOWN" /tmp/runall_$id.log | head -3
done
