#!/bin/bash
# usage: tools/seed_matrix_par.sh [jobs] [seed names...]  -- runs every seeded change against the quick check of its property, each in its own
# scratch worktree of /repo (PYTHONPATH override; /repo itself is not touched), `jobs` at a time; writes seeded/RESULTS.tsv
J=${1:-3}; shift
cd /verif
bin/setup.sh >/dev/null 2>&1
SEEDS=${@:-$(ls seeded | grep -v RESULTS)}
one() {
  n=$1
  id=$(python3 -c "import json;print(json.load(open('/verif/seeded/$n/meta.json'))['property'])")
  chk=$id; [ "$n" = "C19-1" ] && chk=C17; [ "$n" = "C09-3" ] && chk=C07; [ "$n" = "C03-5" ] && chk=C01
  wt=/tmp/smw_$n; rm -rf $wt; git -C /repo worktree add -q --detach $wt HEAD 2>/dev/null || { echo -e "$n\t$chk\t-\terror(worktree)"; return; }
  if ! git -C $wt apply /verif/seeded/$n/patch.diff 2>/dev/null; then echo -e "$n\t$chk\t-\terror(patch)"; git -C /repo worktree remove --force $wt; return; fi
  mkdir -p /tmp/smw_ev_$n
  (cd /verif; PYTHONPATH=$wt VERIF_WORKERS=8 VERIF_EVIDENCE_DIR=/tmp/smw_ev_$n VERIF_REPLAY_DIR=/tmp/smw_ev_$n timeout 3000 .venv/bin/python -W ignore -m symx.run $chk --tier quick > /tmp/smw_$n.log 2>&1); rc=$?
  git -C /repo worktree remove --force $wt; rm -rf /tmp/smw_ev_$n
  v="MISSED"; [ "$rc" = "1" ] && grep -q "^VIOLATION" /tmp/smw_$n.log && v="caught"; [ "$rc" != "0" ] && [ "$rc" != "1" ] && v="error($rc)"
  echo -e "$n\t$chk\t$rc\t$v"
}
export -f one
echo $SEEDS | tr ' ' '\n' | xargs -P $J -I{} bash -c 'one {}' | tee /tmp/seed_matrix_par.out
(echo -e "seed\tcheck\texit\tverdict"; sort /tmp/seed_matrix_par.out) > seeded/RESULTS.tsv
git -C /repo worktree prune
