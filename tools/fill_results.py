#!/usr/bin/env python3
"""rewrites the 'quick result' column of the per-property table in DESIGN.md from evidence/<ID>.json (quick-tier runs only)"""
import json, os, re
V = '/verif'
s = open(os.path.join(V, 'DESIGN.md')).read()
out = []
for line in s.splitlines():
    m = re.match(r'^\| (C\d\d) \|(.*)\|([^|]*)\|$', line)
    if m:
        pid = m.group(1)
        p = os.path.join(V, 'evidence', pid + '.json')
        if os.path.exists(p):
            e = json.load(open(p))
            c = e['coverage']
            if e.get('tier') == 'quick':
                extra = ', %d not encoded' % len(c.get('engine_not_encoded', [])) if c.get('engine_not_encoded') else ''
                line = '| %s |%s| %d/%d, %d s%s |' % (pid, m.group(2), c['discharged'], c['obligations'], round(e['wall_s']), extra)
    out.append(line)
open(os.path.join(V, 'DESIGN.md'), 'w').write('\n'.join(out) + '\n')
